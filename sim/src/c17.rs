//! C17 — modules and packages resolve according to the project layout.
//!
//! What is simulation here: the loader is stateful (roots only grow, the package graph is rebuilt
//! when a root is discovered or a gleam.toml is opened) and reads the disk while handling a
//! message, so the history (open order, re-opens) and the disk state at each open (dependencies
//! not downloaded yet, appearing later) are explored. The sweep over tree shapes underneath is
//! plain configuration sampling.
use crate::core::Granularity;
use crate::ide_sim::Violation;
use crate::lsp::{preamble, scratch_root, uri_for, DiskOp, History, Op, PlannedOp, Session};
use crate::lspcheck;
use crate::rng::{mix, Rng};
use serde_json::{json, Value};
use std::collections::{BTreeMap, BTreeSet};

#[derive(Clone, Debug)]
struct Pkg {
    name: String,
    /// directory relative to the scratch root
    dir: String,
    /// indices of direct dependencies
    deps: Vec<usize>,
    /// how the dependency is written in gleam.toml: registry-style or by path
    external: bool,
    /// module name -> (relative file path inside the package, function name)
    modules: Vec<(String, String, String)>,
}

const MOD_NAMES: &[&str] = &["util", "shared", "core/list", "a", "a/b", "deep/er/m"];

fn gen_packages(rng: &mut Rng) -> Vec<Pkg> {
    // 0 = app (root project), then registry deps under app/build/packages, path deps as siblings
    let mut pkgs = vec![Pkg { name: "app".into(), dir: "app".into(), deps: vec![], external: false, modules: vec![] }];
    let n_extra = rng.range(0, 3);
    for k in 0..n_extra {
        if rng.chance(2, 3) {
            let name = format!("dep{k}");
            pkgs.push(Pkg { name: name.clone(), dir: format!("app/build/packages/{name}"), deps: vec![], external: true, modules: vec![] });
        } else {
            let name = format!("lib{k}");
            // a path dependency may sit beside the project, inside it (a nested root: its files
            // belong to it, not to the project around it) or in a directory of another name
            let dir = match rng.below(4) {
                0 => format!("app/vendor/{name}"),
                1 => format!("libs/dir_of_{k}"),
                _ => name.clone(),
            };
            pkgs.push(Pkg { name: name.clone(), dir, deps: vec![], external: false, modules: vec![] });
        }
    }
    let n = pkgs.len();
    // One tree in three holds a second, independent project (sometimes a second checkout with the
    // same package name) with its OWN copies of registry dependencies of the same names: package
    // identity must not leak from one project to the other.
    let mut second: Vec<usize> = Vec::new();
    if rng.chance(1, 3) {
        let name = if rng.chance(1, 2) { "app" } else { "other" };
        pkgs.push(Pkg { name: name.into(), dir: "other".into(), deps: vec![], external: false, modules: vec![] });
        let oi = pkgs.len() - 1;
        second.push(oi);
        for k in 0..rng.range(0, 2) {
            let name = format!("dep{k}");
            pkgs.push(Pkg { name: name.clone(), dir: format!("other/build/packages/{name}"), deps: vec![], external: true, modules: vec![] });
            let j = pkgs.len() - 1;
            second.push(j);
            pkgs[oi].deps.push(j);
        }
        if second.len() == 3 && rng.chance(1, 2) {
            let (a, b) = (second[1], second[2]);
            pkgs[a].deps.push(b);
        }
    }
    // dependency edges: app -> some; registry deps may depend on later registry deps
    for j in 1..n {
        if rng.chance(3, 4) {
            pkgs[0].deps.push(j);
        }
    }
    for i in 1..n {
        for j in (i + 1)..n {
            if pkgs[i].external && pkgs[j].external && rng.chance(1, 2) {
                pkgs[i].deps.push(j);
            }
            // a path dependency of a path dependency
            if !pkgs[i].external && !pkgs[j].external && rng.chance(1, 3) {
                pkgs[i].deps.push(j);
            }
        }
    }
    // build/packages only ever holds what the root project needs, directly or transitively
    let mut reach: BTreeSet<usize> = BTreeSet::new();
    let mut todo = vec![0usize];
    while let Some(i) = todo.pop() {
        if reach.insert(i) {
            todo.extend(pkgs[i].deps.iter().copied());
        }
    }
    for j in 1..n {
        if pkgs[j].external && !reach.contains(&j) {
            pkgs[0].deps.push(j);
            let mut todo = vec![j];
            while let Some(i) = todo.pop() {
                if reach.insert(i) {
                    todo.extend(pkgs[i].deps.iter().copied());
                }
            }
        }
    }
    // modules: module names are reused across packages on purpose
    for (pi, p) in pkgs.iter_mut().enumerate() {
        let nmods = rng.range(1, 3);
        let mut used = BTreeSet::new();
        for _ in 0..nmods {
            let name = rng.pick(MOD_NAMES).to_string();
            if !used.insert(name.clone()) {
                continue;
            }
            let dir = if !p.external && rng.chance(1, 4) { "test" } else { "src" };
            let fname = format!("f_{}{}_{}", p.name, pi, name.replace('/', "_"));
            p.modules.push((name.clone(), format!("{dir}/{name}.gleam"), fname));
        }
    }
    pkgs
}

fn toml_of(pkgs: &[Pkg], i: usize) -> String {
    let p = &pkgs[i];
    let mut s = format!("name = \"{}\"\nversion = \"1.0.0\"\n", p.name);
    if !p.deps.is_empty() {
        s += "\n[dependencies]\n";
        for d in &p.deps {
            let q = &pkgs[*d];
            if q.external {
                s += &format!("{} = \"~> 1.0\"\n", q.name);
            } else {
                // path dependency, relative to this package's directory
                let ups = p.dir.split('/').count();
                let rel = format!("{}{}", "../".repeat(ups), q.dir);
                s += &format!("{} = {{ path = \"{}\" }}\n", q.name, rel);
            }
        }
    }
    s
}

#[derive(Clone, Debug)]
struct Expect {
    req_id: i64,
    importer: String,
    module: String,
    /// file the call must resolve to; `None` = must resolve to nothing
    target: Option<String>,
    /// there are several visible candidates: any of them is fine
    ambiguous: Vec<String>,
}

/// Text of an importer module: imports every name in `names` and calls its function.
fn module_text(f: &str) -> String {
    let camel = f[1..].replace('_', "");
    format!("pub fn {f}() {{\n  1\n}}\n\npub type T{camel} {{\n  C{camel}\n}}\n")
}

/// The importer uses every module three ways: qualified call `m.f()`, unqualified function
/// `import m.{f as u0}` ... `u0()`, unqualified constructor `import m.{Con as K0}` ... `K0`.
fn importer_text(own_fn: &str, names: &[(String, String)]) -> (String, Vec<(String, [u32; 2])>) {
    let mut s = String::new();
    for (k, (m, f)) in names.iter().enumerate() {
        let con = format!("C{}", f[1..].replace('_', ""));
        s += &format!("import {m}\n");
        s += &format!("import {m}.{{{f} as u{k}}}\n");
        s += &format!("import {m}.{{{con}}}\n");
    }
    s += &format!("\npub fn {own_fn}() {{\n");
    let mut positions = Vec::new();
    let base_line = 3 * names.len() as u32 + 2;
    for (k, (m, f)) in names.iter().enumerate() {
        let acc = m.rsplit('/').next().unwrap();
        s += &format!("  {acc}.{f}()\n");
        positions.push((m.clone(), [base_line + 3 * k as u32, 2 + acc.len() as u32 + 1 + 1]));
        s += &format!("  u{k}()\n");
        positions.push((m.clone(), [base_line + 3 * k as u32 + 1, 3]));
        s += &format!("  C{}\n", f[1..].replace('_', ""));
        positions.push((m.clone(), [base_line + 3 * k as u32 + 2, 3]));
    }
    s += "  1\n}\n";
    (s, positions)
}

pub fn gen_session(seed: u64, run: u64, _thorough: bool) -> Session {
    let mut rng = Rng::new(mix(mix(seed, run), 17));
    let hash_seed = rng.next();
    // where the whole tree sits on disk: a checkout under ~/src, a fixture under test/..., a
    // build directory - no directory ABOVE a package root may influence module names
    let root = format!("{}{}", scratch_root("C17", seed, run), rng.pick(&["", "", "", "/src", "/test/deep", "/build", "/src/test"]));
    let pkgs = gen_packages(&mut rng);
    // every module name that exists anywhere, with the function its module defines per package
    let all_names: BTreeSet<String> = pkgs.iter().flat_map(|p| p.modules.iter().map(|m| m.0.clone())).collect();

    // ---- files
    let mut tree: Vec<(String, String)> = Vec::new();
    let mut late: Vec<(String, String)> = Vec::new(); // dependency files that appear later
    let deps_late = rng.chance(1, 4);
    let mut expects: Vec<Expect> = Vec::new();
    let mut next_id = 1i64;
    let mut importer_files: Vec<(usize, String, String)> = Vec::new(); // (pkg, rel path, text)
    let mut request_ops: Vec<PlannedOp> = Vec::new();
    for (pi, p) in pkgs.iter().enumerate() {
        let put = |tree: &mut Vec<(String, String)>, late: &mut Vec<(String, String)>, path: String, text: String| {
            if deps_late && p.external {
                late.push((path, text));
            } else {
                tree.push((path, text));
            }
        };
        put(&mut tree, &mut late, format!("{}/gleam.toml", p.dir), toml_of(&pkgs, pi));
        for (_, rel, f) in &p.modules {
            put(&mut tree, &mut late, format!("{}/{rel}", p.dir), module_text(f));
        }
        // one importer module per package, importing every module name that exists anywhere
        let visible: Vec<usize> = std::iter::once(pi).chain(p.deps.iter().copied()).collect();
        let mut names: Vec<(String, String)> = Vec::new();
        let mut local_expect: Vec<(String, Option<String>, Vec<String>)> = Vec::new();
        for n in &all_names {
            let cands: Vec<(usize, &(String, String, String))> = visible
                .iter()
                .flat_map(|v| pkgs[*v].modules.iter().filter(|m| &m.0 == n).map(move |m| (*v, m)))
                .collect();
            // which function name to call: the one of the expected target, or of any package
            let any = pkgs.iter().flat_map(|q| q.modules.iter()).find(|m| &m.0 == n).unwrap();
            match cands.len() {
                0 => {
                    names.push((n.clone(), any.2.clone()));
                    local_expect.push((n.clone(), None, vec![]));
                }
                1 => {
                    let (v, m) = cands[0];
                    names.push((n.clone(), m.2.clone()));
                    local_expect.push((n.clone(), Some(format!("{}/{}", pkgs[v].dir, m.1)), vec![]));
                }
                _ => {
                    let (v, m) = cands[0];
                    names.push((n.clone(), m.2.clone()));
                    local_expect.push((
                        n.clone(),
                        Some(format!("{}/{}", pkgs[v].dir, m.1)),
                        cands.iter().map(|(v, m)| format!("{}/{}", pkgs[*v].dir, m.1)).collect(),
                    ));
                }
            }
        }
        let own_fn = format!("main_{}{}", p.name, pi);
        let (text, positions) = importer_text(&own_fn, &names);
        let rel = format!("{}/src/imp_{}{}.gleam", p.dir, p.name, pi);
        put(&mut tree, &mut late, rel.clone(), text.clone());
        importer_files.push((pi, rel.clone(), text));
        let local_expect3: Vec<_> = local_expect.iter().flat_map(|e| [e.clone(), e.clone(), e.clone()]).collect();
        for ((m, pos), (_, target, amb)) in positions.iter().zip(local_expect3) {
            let id = next_id;
            next_id += 1;
            request_ops.push(PlannedOp::new(Op::Request {
                id,
                method: "textDocument/definition".into(),
                uri: uri_for(&root, &rel),
                pos: *pos,
                extra: json!({}),
            }));
            expects.push(Expect { req_id: id, importer: rel.clone(), module: m.clone(), target, ambiguous: amb });
        }
    }
    // a free-standing file without gleam.toml
    let loose = "loose/x.gleam".to_string();
    tree.push((loose.clone(), "pub fn lonely(x: Int) {\n  x\n}\n".into()));

    // ---- history: open order and disk state at each open
    let root_uri = format!("file://{root}/app");
    let mut ops = preamble(Some(&root_uri));
    let mut order: Vec<(String, String)> = importer_files.iter().map(|(_, rel, text)| (rel.clone(), text.clone())).collect();
    // also open a plain module of a dependency now and then (dependency first)
    for p in pkgs.iter().skip(1) {
        if let Some((_, rel, f)) = p.modules.first() {
            if rng.chance(1, 2) {
                order.push((format!("{}/{rel}", p.dir), module_text(f)));
            }
        }
    }
    order.push((loose.clone(), "pub fn lonely(x: Int) {\n  x\n}\n".into()));
    // opening a gleam.toml (unchanged) makes the loader rebuild the package graph
    if rng.chance(1, 3) {
        let pi = rng.below(pkgs.len());
        if !(deps_late && pkgs[pi].external) {
            order.push((format!("{}/gleam.toml", pkgs[pi].dir), toml_of(&pkgs, pi)));
        }
    }
    rng.shuffle(&mut order);
    let order_kind = if order[0].0.ends_with("gleam.toml") {
        "open_order.gleam_toml_first"
    } else if order[0].0.starts_with("app/src") {
        "open_order.root_first"
    } else if order[0].0.starts_with("loose") {
        "open_order.free_standing_first"
    } else {
        "open_order.dependency_first"
    };
    let mut opened: Vec<String> = Vec::new();
    let late_at = if deps_late { rng.range(1, order.len()) } else { usize::MAX };
    for (k, (rel, text)) in order.iter().enumerate() {
        if k == late_at {
            // the dependencies get downloaded now
            for (p, t) in &late {
                ops.push(PlannedOp::tagged(Op::Disk(DiskOp::Write { path: p.clone(), text: t.clone() }), "disk.deps_appear_later"));
            }
            let changes = late.iter().map(|(p, _)| (uri_for(&root, p), 1u32)).collect();
            ops.push(PlannedOp::tagged(Op::Watched { changes }, "didChangeWatchedFiles"));
        }
        if deps_late && k < late_at && late.iter().any(|(p, _)| p == rel) {
            // cannot open a file that does not exist yet
            continue;
        }
        let mut p = PlannedOp::new(Op::Open { uri: uri_for(&root, rel), text: text.clone() });
        if k == 0 {
            p.tags.push(order_kind.to_string());
        }
        ops.push(p);
        opened.push(rel.clone());
        if rng.chance(1, 6) {
            // close and re-open
            ops.push(PlannedOp::tagged(Op::Close { uri: uri_for(&root, rel) }, "reopen"));
            ops.push(PlannedOp::new(Op::Open { uri: uri_for(&root, rel), text: text.clone() }));
        }
    }
    if deps_late && late_at >= order.len() {
        for (p, t) in &late {
            ops.push(PlannedOp::tagged(Op::Disk(DiskOp::Write { path: p.clone(), text: t.clone() }), "disk.deps_appear_later"));
        }
    }
    // ---- questions
    let open_set: BTreeSet<&String> = opened.iter().collect();
    for p in request_ops {
        if let Op::Request { uri, .. } = &p.op {
            let rel = uri.trim_start_matches(&format!("file://{root}/")).to_string();
            if open_set.contains(&rel) {
                ops.push(p);
            }
        }
    }
    // external packages are navigable, not editable; local ones are editable
    let mut rename_expect: Vec<(i64, String, bool)> = Vec::new();
    for p in pkgs.iter() {
        if let Some((_, rel, _)) = p.modules.first() {
            let full = format!("{}/{rel}", p.dir);
            if open_set.contains(&full) {
                let id = next_id;
                next_id += 1;
                ops.push(PlannedOp::new(Op::Request {
                    id,
                    method: "textDocument/prepareRename".into(),
                    uri: uri_for(&root, &full),
                    pos: [0, 9],
                    extra: json!({}),
                }));
                rename_expect.push((id, full, p.external));
            }
        }
    }
    // a free-standing file still gets answers
    let hover_id = next_id;
    ops.push(PlannedOp::new(Op::Request { id: hover_id, method: "textDocument/hover".into(), uri: uri_for(&root, &loose), pos: [0, 9], extra: json!({}) }));
    ops.push(PlannedOp::new(Op::Barrier));

    let n_pkgs = pkgs.len();
    Session {
        property: "C17".into(),
        seed,
        run,
        hash_seed,
        concurrency: 64,
        gran: Granularity::Coarse,
        policy: "sequential".into(),
        sequential: true,
        root,
        tree,
        ops,
        crashes: Vec::new(),
        midload: Vec::new(),
        midload_at: Vec::new(),
        decisions: None,
        hold: None,
        meta: json!({
            "expects": expects.iter().map(|e| json!({"id": e.req_id, "importer": e.importer, "module": e.module, "target": e.target, "ambiguous": e.ambiguous})).collect::<Vec<_>>(),
            "rename": rename_expect.iter().map(|(id, f, ext)| json!({"id": id, "file": f, "external": ext})).collect::<Vec<_>>(),
            "hover_id": hover_id,
            "deps_late": deps_late,
            "packages": n_pkgs,
            "order_kind": order_kind,
            "shape": pkgs.iter().map(|p| format!("{}{}:{:?}:{}", if p.dir.starts_with("other") { "o" } else if p.external { "r" } else if p.dir.starts_with("app/") { "n" } else if p.dir.starts_with("libs/") { "d" } else { "l" }, p.modules.len(), p.deps, p.modules.iter().map(|m| if m.1.starts_with("test") { 't' } else if m.0.contains('/') { 'n' } else { 's' }).collect::<String>())).collect::<Vec<_>>().join(";"),
        }),
    }
}

#[derive(Default)]
pub struct Stats {
    pub imports_checked: u64,
    pub resolved_to_target: u64,
    pub resolved_to_nothing_as_expected: u64,
    pub late_unresolved_accepted: u64,
    pub rename_refusals_checked: u64,
    pub nontrivial: bool,
    pub kind_key: String,
}

/// `a/b/../c` and `a/c` name the same file.
fn normalize_uri(u: &str) -> String {
    let mut out: Vec<&str> = Vec::new();
    for part in u.split('/') {
        if part == ".." && out.len() > 3 {
            out.pop();
        } else if part != "." {
            out.push(part);
        }
    }
    out.join("/")
}

fn result_uris(v: &Value) -> Vec<String> {
    let raw: Vec<String> = match v {
        Value::Array(a) => a.iter().filter_map(|l| l["uri"].as_str().or(l["targetUri"].as_str()).map(|s| s.to_string())).collect(),
        Value::Object(_) => v["uri"].as_str().map(|s| vec![s.to_string()]).unwrap_or_default(),
        _ => Vec::new(),
    };
    raw.iter().map(|u| normalize_uri(u)).collect()
}

pub fn check(s: &Session, h: &History, stats: &mut Stats) -> Option<Violation> {
    let deps_late = s.meta["deps_late"].as_bool().unwrap_or(false);
    let order_kind = s.meta["order_kind"].as_str().unwrap_or("").to_string();
    stats.nontrivial = s.meta["packages"].as_u64().unwrap_or(1) > 1;
    stats.kind_key = format!("{}|{}|late={}", s.meta["shape"], order_kind, deps_late);
    if let Some(v) = lspcheck::liveness_violation(s, h) {
        return Some(v);
    }
    if !h.completed {
        return None;
    }
    if let Some(v) = lspcheck::exactly_once(s, h) {
        return Some(v);
    }
    let resp = h.responses();
    let sent: BTreeSet<i64> = s
        .ops
        .iter()
        .filter_map(|p| match &p.op {
            Op::Request { id, .. } => Some(*id),
            _ => None,
        })
        .collect();
    let mut base_kinds = vec![order_kind.clone()];
    if deps_late {
        base_kinds.push("disk.deps_appear_later".into());
    }
    for e in s.meta["expects"].as_array().into_iter().flatten() {
        let id = e["id"].as_i64().unwrap();
        if !sent.contains(&id) {
            continue;
        }
        let Some(r) = resp.get(&id).and_then(|v| v.first()) else { continue };
        stats.imports_checked += 1;
        let uris = r.get("result").map(result_uris).unwrap_or_default();
        let want: Option<String> = e["target"].as_str().map(|t| format!("file://{}/{t}", s.root));
        let amb: Vec<String> = e["ambiguous"].as_array().map(|a| a.iter().filter_map(|x| x.as_str()).map(|t| format!("file://{}/{t}", s.root)).collect()).unwrap_or_default();
        let importer = e["importer"].as_str().unwrap_or("");
        let importer_kind = if importer.starts_with("other/") {
            "importer.second_project"
        } else if importer.contains("build/packages") {
            "importer.registry_dependency"
        } else if importer.starts_with("app/") {
            "importer.root_package"
        } else {
            "importer.path_dependency"
        };
        let fail = |what: &str, detail: String| {
            let mut kinds = base_kinds.clone();
            kinds.push(importer_kind.to_string());
            kinds.push(what.to_string());
            kinds.sort();
            Some(Violation { oracle: "import_resolution".into(), kinds, detail })
        };
        match &want {
            None => {
                if let Some(u) = uris.first() {
                    return fail(
                        "resolved_although_not_visible",
                        format!("`{}` imported in {importer} is in no package visible from there, yet definition lands in {u}", e["module"]),
                    );
                }
                stats.resolved_to_nothing_as_expected += 1;
            }
            Some(w) => {
                if let Some(u) = uris.iter().find(|u| *u != w && !amb.contains(u)) {
                    return fail(
                        "resolved_to_another_file",
                        format!("`{}` imported in {importer} must resolve to {w} but definition lands in {u}", e["module"]),
                    );
                }
                if r.get("error").is_some() {
                    return fail(
                        "definition_request_failed",
                        format!("definition on `{}` in {importer} failed: {}", e["module"], r.to_string().chars().take(200).collect::<String>()),
                    );
                }
                if uris.is_empty() {
                    if !amb.is_empty() {
                        // several visible packages provide the module; the call was written for
                        // one of them and the import may legitimately go to another
                        stats.late_unresolved_accepted += 1;
                    } else if deps_late {
                        // dependencies that appear after the package was loaded need not be seen
                        stats.late_unresolved_accepted += 1;
                    } else {
                        return fail(
                            "not_resolved",
                            format!("`{}` imported in {importer} must resolve to {w} but definition answers {}", e["module"], r.to_string().chars().take(200).collect::<String>()),
                        );
                    }
                } else {
                    stats.resolved_to_target += 1;
                }
            }
        }
    }
    for e in s.meta["rename"].as_array().into_iter().flatten() {
        let id = e["id"].as_i64().unwrap();
        let Some(r) = resp.get(&id).and_then(|v| v.first()) else { continue };
        stats.rename_refusals_checked += 1;
        let external = e["external"].as_bool().unwrap_or(false);
        let refused = r.get("error").is_some();
        if external && !refused && !deps_late {
            let mut kinds = base_kinds.clone();
            kinds.push("external_package_editable".into());
            return Some(Violation {
                oracle: "external_packages_not_editable".into(),
                kinds,
                detail: format!("prepareRename on a function of {} (under build/packages) was accepted: {}", e["file"], r.to_string().chars().take(200).collect::<String>()),
            });
        }
        if !external && refused {
            let mut kinds = base_kinds.clone();
            kinds.push("local_package_not_editable".into());
            return Some(Violation {
                oracle: "local_packages_editable".into(),
                kinds,
                detail: format!("prepareRename on a function of {} (a local package) was refused: {}", e["file"], r.to_string().chars().take(200).collect::<String>()),
            });
        }
    }
    let hid = s.meta["hover_id"].as_i64().unwrap_or(-1);
    if let Some(r) = resp.get(&hid).and_then(|v| v.first()) {
        if r.get("result").map_or(true, |x| x.is_null()) {
            let mut kinds = base_kinds.clone();
            kinds.push("free_standing_file".into());
            return Some(Violation {
                oracle: "free_standing_file_answered".into(),
                kinds,
                detail: format!("hover on a function of a file without gleam.toml answered {}", r.to_string().chars().take(200).collect::<String>()),
            });
        }
    }
    let _ = BTreeMap::<u8, u8>::new();
    None
}
