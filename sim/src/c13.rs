//! C13 — the server's copy of a document tracks the editor's through any edits.
use crate::core::Granularity;
use crate::ide_sim::Violation;
use crate::lsp::{preamble, scratch_root, DocModel, Edit, Ev, History, Op, PlannedOp, Session};
use crate::rng::{mix, Rng};
use serde_json::json;
use std::collections::BTreeMap;

const UNITS: &[&str] = &[
    "a", "b", "x", "fn", " ", " ", "\n", "\n", "\r\n", "\r\n", "ß", "é", "ℝ", "→", "💣", "𝒳", "(", ")", "{", "}", "=", "1",
    "\t", "e\u{301}", "\u{feff}", "👨\u{200d}👩\u{200d}👧", "\u{1f1e9}\u{1f1ea}", "\"", "//",
];

/// Code points at the edges of the UTF-8 / UTF-16 length classes.
const EDGES: &[u32] = &[
    0x7f, 0x80, 0xff, 0x100, 0x7bf, 0x7c0, 0x7ff, 0x800, 0xfff, 0x1000, 0xd7ff, 0xe000, 0xfffd, 0xffff, 0x10000, 0x1ffff,
    0x20000, 0xfffff, 0x100000, 0x10ffff,
];

/// A character that is not from the fixed palette: an edge of a length class, or uniform inside
/// the 2-, 3- or 4-byte class (never CR, never a surrogate).
fn odd_char(rng: &mut Rng) -> char {
    let cp = match rng.below(4) {
        0 => *rng.pick(EDGES),
        1 => 0x80 + rng.below(0x800 - 0x80) as u32,
        2 => {
            let c = 0x800 + rng.below(0x10000 - 0x800) as u32;
            if (0xd800..0xe000).contains(&c) {
                0xe000 + (c - 0xd800)
            } else {
                c
            }
        }
        _ => 0x10000 + rng.below(0x110000 - 0x10000) as u32,
    };
    char::from_u32(cp).unwrap_or('\u{fffd}')
}

pub fn gen_text(rng: &mut Rng, max_units: usize) -> String {
    let n = rng.below(max_units + 1);
    let mut s = String::new();
    for _ in 0..n {
        if rng.chance(1, 7) {
            s.push(odd_char(rng));
        } else {
            s += *rng.pick(UNITS);
        }
    }
    s
}

fn doc_uri(i: usize) -> String {
    format!("file:///nonexistent-glas-sim/c13/d{i}.gleam")
}

/// Systematic workload: one small document, EVERY valid (start, end) pair, every replacement of a
/// small set; each incremental edit is preceded by a full-text reset to the base document. This
/// is input enumeration under the simulator's transport and main loop, claimed only as part of
/// the exploration.
fn gen_sweep_session(seed: u64, run: u64) -> Session {
    let mut rng = Rng::new(mix(mix(seed, run), 1313));
    let hash_seed = rng.next();
    let base = {
        let mut t = gen_text(&mut rng, 6);
        if t.is_empty() {
            t = "a\r\n💣ß".to_string();
        }
        t
    };
    let uri = doc_uri(0);
    let m = DocModel { text: base.clone() };
    // all valid positions
    let mut positions: Vec<[u32; 2]> = Vec::new();
    for (li, (s, e, _)) in m.lines().iter().enumerate() {
        let mut units = 0u32;
        positions.push([li as u32, 0]);
        for c in m.text[*s..*e].chars() {
            units += c.len_utf16() as u32;
            positions.push([li as u32, units]);
        }
    }
    const REPL: &[&str] = &["", "x", "\n", "\r\n", "ß", "💣", "a\nb"];
    let mut ops = preamble(None);
    ops.push(PlannedOp::new(Op::Open { uri: uri.clone(), text: base.clone() }));
    ops.push(PlannedOp::new(Op::ProbeText { uri: uri.clone() }));
    for (i, a) in positions.iter().enumerate() {
        for b in positions.iter().skip(i) {
            for r in REPL {
                let mut p = PlannedOp::new(Op::Change {
                    uri: uri.clone(),
                    edits: vec![
                        Edit { range: None, text: base.clone() },
                        Edit { range: Some([a[0], a[1], b[0], b[1]]), text: r.to_string() },
                    ],
                });
                p.tags = vec!["sweep.single_edit".into()];
                if base.contains('\r') || r.contains('\r') {
                    p.tags.push("doc.has_crlf".into());
                }
                if base.chars().any(|c| c.len_utf8() > 1) || r.chars().any(|c| c.len_utf8() > 1) {
                    p.tags.push("doc.has_multibyte".into());
                }
                ops.push(p);
                ops.push(PlannedOp::new(Op::ProbeText { uri: uri.clone() }));
                ops.push(PlannedOp::new(Op::Request {
                    id: 1000 + ops.len() as i64,
                    method: "glas/syntaxTree".into(),
                    uri: uri.clone(),
                    pos: [0, 0],
                    extra: json!({}),
                }));
            }
        }
    }
    ops.push(PlannedOp::new(Op::Barrier));
    Session {
        property: "C13".into(),
        seed,
        run,
        hash_seed,
        concurrency: 4,
        gran: Granularity::Coarse,
        policy: "sequential".into(),
        sequential: true,
        root: String::new(),
        tree: Vec::new(),
        ops,
        crashes: Vec::new(),
        midload: Vec::new(),
        midload_at: Vec::new(),
        decisions: None,
        hold: None,
        meta: json!({"sweep": true, "base": base}),
    }
}

pub fn gen_session(seed: u64, run: u64, thorough: bool) -> Session {
    if run % (if thorough { 10 } else { 50 }) == 7 {
        return gen_sweep_session(seed, run);
    }
    let mut rng = Rng::new(mix(mix(seed, run), 13));
    let hash_seed = rng.next();
    let ndocs = if rng.chance(1, 4) { 2 } else { 1 };
    // One run in three: the documents are files of a project on disk whose saved content differs
    // from what the editor holds (unsaved changes), so the loader reads the disk on didOpen.
    let on_disk = rng.chance(1, 3);
    let root = if on_disk { scratch_root("C13", seed, run) } else { String::new() };
    let mut tree: Vec<(String, String)> = Vec::new();
    let doc_uri = |i: usize| -> String {
        if on_disk {
            format!("file://{root}/src/d{i}.gleam")
        } else {
            doc_uri(i)
        }
    };
    // One on-disk session in four: the project is *born later*. The documents are opened while
    // there is no gleam.toml beside them (free-standing files); some edits later the manifest
    // appears and another file of the directory - or the manifest itself - is opened, which makes
    // the server discover the package and load it from disk. The open documents are the editor's.
    let mut brng = Rng::new(mix(mix(seed, run), 0xB0B1));
    let born_later = on_disk && brng.chance(1, 4);
    if on_disk {
        tree.push(("src/other.gleam".into(), "pub fn other() { 1 }\n".into()));
    }
    if on_disk && !born_later {
        tree.push(("gleam.toml".into(), "name = \"proj\"\n".into()));
    }
    if on_disk {
        for d in 0..ndocs {
            tree.push((format!("src/d{d}.gleam"), format!("// saved content {}\n{}", d, gen_text(&mut rng, 10).replace('\r', ""))));
        }
    }
    let root_uri = format!("file://{root}");
    let mut ops = preamble(if on_disk { Some(&root_uri) } else { None });
    // What the editor says about position encodings (LSP 3.17 `general.positionEncodings`): most
    // say nothing, some offer UTF-16 only, some offer UTF-8 or UTF-32 as well. Unless the server's
    // answer picks another one, positions stay UTF-16 - which is what this client sends.
    {
        let mut crng = Rng::new(mix(mix(seed, run), 0xE2C0));
        if crng.chance(1, 3) {
            let offer: &[&str] = *crng.pick(&[&["utf-16"][..], &["utf-8", "utf-16"][..], &["utf-16", "utf-8"][..], &["utf-32", "utf-8", "utf-16"][..], &["utf-8"][..]]);
            if let Op::Raw { msg } = &mut ops[0].op {
                msg["params"]["capabilities"]["general"] = json!({"positionEncodings": offer});
            }
            ops[0].tags.push(format!("client.offers_encodings.{}", offer.join("+")));
        }
    }
    let mut models: Vec<DocModel> = Vec::new();
    for d in 0..ndocs {
        let mut text = gen_text(&mut rng, 40);
        // what editors and other tools leave at the start or the end of a file
        match rng.below(16) {
            0 => text.insert(0, '\u{feff}'),
            1 => text.push_str("\r\n\r\n"),
            2 => text.insert_str(0, "\r\n"),
            3 => text.insert(0, '\0'),
            _ => {}
        }
        let mut p = PlannedOp::new(Op::Open { uri: doc_uri(d), text: text.clone() });
        if text.starts_with('\u{feff}') {
            p.tags.push("doc.starts_with_bom".into());
        }
        if on_disk {
            p.tags.push("open.unsaved_text_differs_from_disk".into());
        }
        ops.push(p);
        ops.push(PlannedOp::new(Op::ProbeText { uri: doc_uri(d) }));
        models.push(DocModel { text });
    }
    let nchanges = rng.range(1, if thorough { 15 } else { 10 });
    let born_at = brng.below(nchanges);
    for round in 0..nchanges {
        if born_later && round == born_at {
            ops.push(PlannedOp::tagged(Op::Disk(crate::lsp::DiskOp::Write { path: "gleam.toml".into(), text: "name = \"proj\"\n".into() }), "disk.manifest_appears"));
            let u = if brng.chance(1, 2) { format!("file://{root}/src/other.gleam") } else { format!("file://{root}/gleam.toml") };
            let t = if u.ends_with(".toml") { "name = \"proj\"\n".to_string() } else { "pub fn other() { 2 }\n".to_string() };
            ops.push(PlannedOp::tagged(Op::Open { uri: u, text: t }, "open.discovers_package_of_open_documents"));
            for d in 0..ndocs {
                ops.push(PlannedOp::new(Op::ProbeText { uri: doc_uri(d) }));
            }
        }
        if on_disk && rng.chance(1, 5) {
            // the editor reports a file event for a document it has open (an atomic save by
            // rename, a checkout): the document is the editor's, the event must not touch it
            let d = rng.below(ndocs);
            ops.push(PlannedOp::tagged(Op::Watched { changes: vec![(doc_uri(d), *rng.pick(&[1u32, 2, 2]))] }, "watched.open_document"));
            ops.push(PlannedOp::new(Op::ProbeText { uri: doc_uri(d) }));
        }
        if brng.chance(1, 6) {
            // The editor closes a document and opens it again later (a tab closed and re-opened, a
            // branch switched): in between the file is nobody's - a file event may report it
            // deleted or changed, another document may be opened - and after the re-open it is
            // the editor's again, with the text of the new didOpen.
            let d = brng.below(ndocs);
            ops.push(PlannedOp::tagged(Op::Close { uri: doc_uri(d) }, "close"));
            if brng.chance(1, 2) {
                ops.push(PlannedOp::tagged(Op::Watched { changes: vec![(doc_uri(d), *brng.pick(&[3u32, 3, 2, 1]))] }, "watched.closed_document"));
            }
            if brng.chance(1, 2) {
                let extra = doc_uri(10 + round);
                ops.push(PlannedOp::tagged(Op::Open { uri: extra.clone(), text: gen_text(&mut brng, 12) }, "open.another_document_meanwhile"));
                ops.push(PlannedOp::new(Op::ProbeText { uri: extra }));
            }
            let text = if brng.chance(1, 3) { models[d].text.clone() } else { gen_text(&mut brng, 30) };
            ops.push(PlannedOp::tagged(Op::Open { uri: doc_uri(d), text: text.clone() }, "open.again_after_close"));
            models[d] = DocModel { text };
            for k in 0..ndocs {
                ops.push(PlannedOp::new(Op::ProbeText { uri: doc_uri(k) }));
            }
        }
        let d = rng.below(ndocs);
        let mut edits = Vec::new();
        let mut tags: Vec<String> = Vec::new();
        let m = &mut models[d];
        let nedits = *rng.pick(&[1, 1, 1, 2, 2, 3, 4]);
        if nedits > 1 {
            tags.push("change.multi".into());
        }
        for _ in 0..nedits {
            let e = if rng.chance(1, 8) {
                tags.push("change.full_text".into());
                Edit { range: None, text: gen_text(&mut rng, 30) }
            } else {
                let r = m.random_range(&mut rng);
                let text = if rng.chance(1, 4) { String::new() } else { gen_text(&mut rng, 8) };
                if r[2] + 1 == m.line_count() {
                    tags.push("change.touches_last_line".into());
                }
                if r[0] != r[2] {
                    tags.push("change.multi_line".into());
                }
                Edit { range: Some(r), text }
            };
            if e.text.contains('\r') {
                tags.push("change.inserts_crlf".into());
            }
            if e.text.chars().any(|c| c.len_utf8() > 1) {
                tags.push("change.inserts_multibyte".into());
            }
            m.apply(&e).expect("generated edit is valid");
            edits.push(e);
        }
        if m.text.contains('\r') {
            tags.push("doc.has_crlf".into());
        }
        if m.text.chars().any(|c| c.len_utf16() == 2) {
            tags.push("doc.has_astral".into());
        } else if m.text.chars().any(|c| c.len_utf8() > 1) {
            tags.push("doc.has_multibyte".into());
        }
        tags.sort();
        tags.dedup();
        let mut p = PlannedOp::new(Op::Change { uri: doc_uri(d), edits });
        p.tags = tags;
        // fragmentation: the stream is reliable, but message boundaries are not read boundaries
        if rng.chance(1, 5) {
            for _ in 0..rng.range(1, 3) {
                p.cuts.push(rng.range(1, 200));
            }
            p.cuts.sort_unstable();
            p.cuts.dedup();
        }
        ops.push(p);
        ops.push(PlannedOp::new(Op::ProbeText { uri: doc_uri(d) }));
        // what the analysis sees, not only what the document store holds
        ops.push(PlannedOp::new(Op::Request {
            id: 1000 + ops.len() as i64,
            method: "glas/syntaxTree".into(),
            uri: doc_uri(d),
            pos: [0, 0],
            extra: json!({}),
        }));
    }
    for d in 0..ndocs {
        ops.push(PlannedOp::new(Op::Request {
            id: 100 + d as i64,
            method: "glas/syntaxTree".into(),
            uri: doc_uri(d),
            pos: [0, 0],
            extra: json!({}),
        }));
    }
    ops.push(PlannedOp::new(Op::Barrier));
    // One on-disk session in three: the disk changes while the server is inside one of its own
    // loads (DESIGN §2.8). Whatever happens to the files, the open documents are the editor's.
    let mut midload = Vec::new();
    if on_disk && brng.chance(1, 3) {
        for _ in 0..brng.range(1, 2) {
            let k = brng.range(1, 40) as u64;
            let path = brng.pick(&["gleam.toml", "src/d0.gleam", "src/d1.gleam", "src/other.gleam"]).to_string();
            let d = match brng.below(5) {
                0 => crate::lsp::DiskOp::Fifo { path },
                1 | 2 => crate::lsp::DiskOp::Remove { path },
                3 => crate::lsp::DiskOp::Write { path, text: "name = \"proj\"\n".into() },
                _ => crate::lsp::DiskOp::RemoveDir { path: "src".into() },
            };
            midload.push((k, d));
        }
    }
    Session {
        property: "C13".into(),
        seed,
        run,
        hash_seed,
        concurrency: 4,
        gran: Granularity::Coarse,
        policy: "sequential".into(),
        sequential: true,
        root,
        tree,
        ops,
        crashes: Vec::new(),
        midload,
        midload_at: Vec::new(),
        decisions: None,
        hold: None,
        meta: json!({}),
    }
}

/// Undo Rust's `{:?}` escaping of a string.
fn unescape_debug(s: &str) -> Option<String> {
    let mut out = String::new();
    let mut it = s.chars();
    while let Some(c) = it.next() {
        if c != '\\' {
            out.push(c);
            continue;
        }
        match it.next()? {
            'n' => out.push('\n'),
            'r' => out.push('\r'),
            't' => out.push('\t'),
            '0' => out.push('\0'),
            '\\' => out.push('\\'),
            '"' => out.push('"'),
            '\'' => out.push('\''),
            'u' => {
                if it.next()? != '{' {
                    return None;
                }
                let mut hex = String::new();
                loop {
                    let h = it.next()?;
                    if h == '}' {
                        break;
                    }
                    hex.push(h);
                }
                out.push(char::from_u32(u32::from_str_radix(&hex, 16).ok()?)?);
            }
            _ => return None,
        }
    }
    Some(out)
}

/// Compare the text the server ANALYSES - as far as a `glas/syntaxTree` dump shows it - with
/// `want`. Token lines look like `    IDENT@7..8 "a"`; node lines carry no text. rowan shortens
/// the text of tokens of 25 bytes or more to a prefix followed by " ...", so for those only the
/// prefix and the span can be compared. Returns a description of the first difference.
pub fn tree_differs_from(dump: &str, want: &str) -> Option<String> {
    let first = dump.lines().next().unwrap_or("");
    let end = first.rsplit("..").next().and_then(|n| n.trim().parse::<usize>().ok());
    if end != Some(want.len()) {
        return Some(format!("root `{first}` does not span the {} bytes of the text", want.len()));
    }
    let mut covered = 0usize;
    for line in dump.lines() {
        let Some(at) = line.find('@') else { continue };
        let rest = &line[at + 1..];
        let Some(q) = rest.find(" \"") else { continue };
        let span = &rest[..q];
        let Some((a, b)) = span.split_once("..") else { continue };
        let (Ok(a), Ok(b)) = (a.parse::<usize>(), b.parse::<usize>()) else { continue };
        let quoted = &rest[q + 2..];
        let Some(endq) = quoted.rfind('"') else { return Some(format!("unreadable token line `{line}`")) };
        let Some(text) = unescape_debug(&quoted[..endq]) else { return Some(format!("unreadable token text in `{line}`")) };
        if a != covered || b > want.len() || !want.is_char_boundary(a) || !want.is_char_boundary(b) {
            return Some(format!("token `{}` does not continue at byte {covered} of the text", line.trim()));
        }
        let expected = &want[a..b];
        let ok = text == expected
            || (expected.len() >= 25 && text.ends_with(" ...") && expected.starts_with(&text[..text.len() - 4]));
        if !ok {
            return Some(format!("token `{}` but the text has {:?} at {a}..{b}", line.trim(), expected));
        }
        covered = b;
    }
    if covered != want.len() {
        return Some(format!("tokens cover {covered} of {} bytes", want.len()));
    }
    None
}

#[derive(Default)]
pub struct Stats {
    pub probes_checked: u64,
    pub edits_applied: u64,
    pub syntax_tree_crosschecks: u64,
    pub sweep_edits: u64,
    pub negotiated_other_encoding: u64,
    pub nontrivial: bool,
    pub kind_key: String,
}

/// Replays the operations against the client model and compares with what the server held.
pub fn check(s: &Session, h: &History, stats: &mut Stats) -> Option<Violation> {
    if let Some(v) = crate::lspcheck::liveness_violation(s, h) {
        return Some(v);
    }
    let mut models: BTreeMap<String, DocModel> = BTreeMap::new();
    let mut last_tags: BTreeMap<String, Vec<String>> = BTreeMap::new();
    let mut kinds_seen: Vec<String> = Vec::new();
    // operations take effect in stream order; probes are evaluated at quiescence after them
    let resp = h.responses();
    // a server that announces another position encoding than UTF-16 has changed the contract for
    // this session; the UTF-16 client model does not apply (none does at the pinned commit)
    if let Some(enc) = resp.get(&0).and_then(|v| v.first()).and_then(|r| r["result"]["capabilities"]["positionEncoding"].as_str()) {
        if enc != "utf-16" {
            stats.negotiated_other_encoding += 1;
            return None;
        }
    }
    let mut probe_results: BTreeMap<usize, Option<String>> = BTreeMap::new();
    for e in &h.events {
        if let Ev::Probe { op, text, .. } = e {
            probe_results.insert(*op, text.clone());
        }
    }
    for (i, p) in s.ops.iter().enumerate() {
        match &p.op {
            Op::Open { uri, text } => {
                if crate::lsp::has_lone_cr(text) {
                    return None; // outside the property's quantifier (LF / CRLF only)
                }
                models.insert(uri.clone(), DocModel { text: text.clone() });
                let mut t = vec!["open".to_string()];
                t.extend(p.tags.iter().cloned());
                last_tags.insert(uri.clone(), t);
            }
            Op::Close { uri } => {
                // not the editor's any more (until it is opened again)
                models.remove(uri);
            }
            Op::Change { uri, edits } => {
                if let Some(m) = models.get_mut(uri) {
                    for e in edits {
                        if m.apply(e).is_err() || crate::lsp::has_lone_cr(&m.text) {
                            // not a C13 history (ranges must be valid, breaks LF / CRLF)
                            return None;
                        }
                        stats.edits_applied += 1;
                    }
                }
                last_tags.insert(uri.clone(), p.tags.clone());
                for t in &p.tags {
                    if !kinds_seen.contains(t) {
                        kinds_seen.push(t.clone());
                    }
                }
            }
            Op::Request { id, method, uri, .. } if method == "glas/syntaxTree" => {
                let Some(m) = models.get(uri) else { continue };
                let Some(r) = resp.get(id).and_then(|v| v.first()) else { continue };
                let Some(tree) = r.get("result").and_then(|t| t.as_str()) else { continue };
                stats.syntax_tree_crosschecks += 1;
                let want = m.normalized();
                if let Some(diff) = tree_differs_from(tree, &want) {
                    let mut kinds = last_tags.get(uri).cloned().unwrap_or_default();
                    kinds.sort();
                    return Some(Violation {
                        oracle: "analysed_text_tracks_editor".into(),
                        kinds,
                        detail: format!(
                            "after operation {i} the syntax tree of {uri} is not that of the editor's text {:?} (CR removed: {:?}): {diff}",
                            m.text, want
                        ),
                    });
                }
            }
            Op::ProbeText { uri } => {
                let Some(got) = probe_results.get(&i) else { continue };
                let Some(m) = models.get(uri) else { continue };
                stats.probes_checked += 1;
                let want = m.normalized();
                if got.as_deref() != Some(want.as_str()) {
                    let mut kinds = last_tags.get(uri).cloned().unwrap_or_default();
                    kinds.sort();
                    return Some(Violation {
                        oracle: "text_tracks_editor".into(),
                        kinds,
                        detail: format!(
                            "after operation {i} the server's copy of {uri} is {:?} but the editor holds {:?} (CR removed: {:?})",
                            got, m.text, want
                        ),
                    });
                }
            }
            _ => {}
        }
    }
    // cross-check without the accessor: the syntax tree spans exactly the text
    for p in &s.ops {
        if let Op::Request { id, method, uri, .. } = &p.op {
            if method != "glas/syntaxTree" || *id >= 1000 {
                continue;
            }
            let Some(m) = models.get(uri) else { continue };
            let Some(r) = resp.get(id).and_then(|v| v.first()) else { continue };
            let Some(tree) = r.get("result").and_then(|t| t.as_str()) else { continue };
            let first = tree.lines().next().unwrap_or("");
            let end = first
                .rsplit("..")
                .next()
                .and_then(|n| n.trim().parse::<usize>().ok());
            stats.syntax_tree_crosschecks += 1;
            if end != Some(m.normalized().len()) {
                return Some(Violation {
                    oracle: "syntax_tree_spans_text".into(),
                    kinds: vec!["syntaxTree".into()],
                    detail: format!("glas/syntaxTree root `{first}` does not span the {} bytes of the editor's text {:?}", m.normalized().len(), m.text),
                });
            }
        }
    }
    if s.meta["sweep"].as_bool() == Some(true) {
        stats.sweep_edits = s.ops.iter().filter(|p| matches!(p.op, Op::Change { .. })).count() as u64;
    }
    kinds_seen.sort();
    stats.nontrivial = kinds_seen.iter().any(|k| k.contains("multibyte") || k.contains("astral") || k.contains("crlf"));
    stats.kind_key = if s.meta["sweep"].as_bool() == Some(true) {
        format!("sweep:{}", s.meta["base"])
    } else {
        s.ops
            .iter()
            .filter(|p| matches!(p.op, Op::Change { .. }))
            .map(|p| p.tags.join("+"))
            .collect::<Vec<_>>()
            .join("|")
    };
    None
}
