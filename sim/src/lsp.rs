//! lsp-sim: the real glas server (main loop on a harness-built current_thread runtime, request and
//! diagnostics tasks on its blocking pool) on an in-memory transport, every interleaving point
//! owned by the controller, the editor replaced by a client model that lives in the controller.
use crate::core::{Chooser, Core, Granularity, Handle, PKind, Policy, Stall, Status, Tid};
use crate::hashseed;
use crate::rng::{mix, Rng};
use futures::{AsyncRead, AsyncWrite};
use ide::verif as hooks;
use serde_json::{json, Value};
use std::collections::{BTreeMap, VecDeque};
use std::panic::{catch_unwind, AssertUnwindSafe};
use std::pin::Pin;
use std::sync::{Arc, Mutex};
use std::task::{Context, Poll, Waker};
use std::time::Duration;

// ---------------------------------------------------------------------------------------------
// Transport

#[derive(Default)]
struct PipeInner {
    inbuf: VecDeque<u8>,
    in_waker: Option<Waker>,
    in_closed: bool,
    out: Vec<u8>,
    bytes_in: u64,
    bytes_out: u64,
}

pub struct Pipe {
    inner: Mutex<PipeInner>,
    core: Arc<Core>,
}

impl Pipe {
    fn new(core: Arc<Core>) -> Arc<Pipe> {
        Arc::new(Pipe {
            inner: Mutex::new(PipeInner::default()),
            core,
        })
    }
    fn push(&self, bytes: &[u8]) {
        self.inner.lock().unwrap().inbuf.extend(bytes.iter().copied());
    }
    fn close_input(&self) {
        self.inner.lock().unwrap().in_closed = true;
    }
    fn wake(&self) {
        let w = self.inner.lock().unwrap().in_waker.clone();
        if let Some(w) = w {
            w.wake();
        }
    }
    fn take_output(&self) -> Vec<u8> {
        std::mem::take(&mut self.inner.lock().unwrap().out)
    }
    fn unread_input(&self) -> usize {
        self.inner.lock().unwrap().inbuf.len()
    }
}

struct SimIn(Arc<Pipe>);
struct SimOut(Arc<Pipe>);

impl AsyncRead for SimIn {
    fn poll_read(self: Pin<&mut Self>, cx: &mut Context<'_>, buf: &mut [u8]) -> Poll<std::io::Result<usize>> {
        let mut p = self.0.inner.lock().unwrap();
        if p.inbuf.is_empty() {
            if p.in_closed {
                return Poll::Ready(Ok(0));
            }
            p.in_waker = Some(cx.waker().clone());
            return Poll::Pending;
        }
        let n = buf.len().min(p.inbuf.len());
        for b in buf.iter_mut().take(n) {
            *b = p.inbuf.pop_front().unwrap();
        }
        p.bytes_in += n as u64;
        drop(p);
        self.0.core.note_io();
        Poll::Ready(Ok(n))
    }
}

impl AsyncWrite for SimOut {
    fn poll_write(self: Pin<&mut Self>, _cx: &mut Context<'_>, buf: &[u8]) -> Poll<std::io::Result<usize>> {
        let mut p = self.0.inner.lock().unwrap();
        p.out.extend_from_slice(buf);
        p.bytes_out += buf.len() as u64;
        drop(p);
        self.0.core.note_io();
        Poll::Ready(Ok(buf.len()))
    }
    fn poll_flush(self: Pin<&mut Self>, _cx: &mut Context<'_>) -> Poll<std::io::Result<()>> {
        Poll::Ready(Ok(()))
    }
    fn poll_close(self: Pin<&mut Self>, _cx: &mut Context<'_>) -> Poll<std::io::Result<()>> {
        Poll::Ready(Ok(()))
    }
}

/// Wraps the main loop future so that the simulator can see whether it has been woken since it
/// was last polled (tokio parks the thread through `before_park` even when a wake is pending).
struct RootFlag {
    woken: Arc<std::sync::atomic::AtomicBool>,
    inner: Mutex<Option<Waker>>,
}

impl std::task::Wake for RootFlag {
    fn wake(self: Arc<Self>) {
        self.wake_by_ref();
    }
    fn wake_by_ref(self: &Arc<Self>) {
        self.woken.store(true, std::sync::atomic::Ordering::SeqCst);
        let w = self.inner.lock().unwrap().clone();
        if let Some(w) = w {
            w.wake();
        }
    }
}

struct Root<F> {
    inner: Pin<Box<F>>,
    flag: Arc<RootFlag>,
}

impl<F: std::future::Future> std::future::Future for Root<F> {
    type Output = F::Output;
    fn poll(mut self: Pin<&mut Self>, cx: &mut Context<'_>) -> Poll<F::Output> {
        self.flag.woken.store(false, std::sync::atomic::Ordering::SeqCst);
        *self.flag.inner.lock().unwrap() = Some(cx.waker().clone());
        let w = Waker::from(self.flag.clone());
        let mut cx2 = Context::from_waker(&w);
        self.inner.as_mut().poll(&mut cx2)
    }
}

pub fn frame(msg: &Value) -> Vec<u8> {
    let body = serde_json::to_vec(msg).unwrap();
    let mut v = format!("Content-Length: {}\r\n\r\n", body.len()).into_bytes();
    v.extend(body);
    v
}

/// Parse complete frames off the front of `buf`.
fn parse_frames(buf: &mut Vec<u8>) -> Vec<Value> {
    let mut out = Vec::new();
    loop {
        let Some(hend) = buf.windows(4).position(|w| w == b"\r\n\r\n") else { break };
        let header = String::from_utf8_lossy(&buf[..hend]).to_string();
        let len = header
            .lines()
            .find_map(|l| l.strip_prefix("Content-Length: ").and_then(|n| n.trim().parse::<usize>().ok()));
        let Some(len) = len else { break };
        if buf.len() < hend + 4 + len {
            break;
        }
        let body: Vec<u8> = buf[hend + 4..hend + 4 + len].to_vec();
        buf.drain(..hend + 4 + len);
        out.push(serde_json::from_slice(&body).unwrap_or(json!({"unparsable": String::from_utf8_lossy(&body)})));
    }
    out
}

// ---------------------------------------------------------------------------------------------
// Client operations

#[derive(Clone, Debug, PartialEq)]
pub struct Edit {
    /// `[start line, start character, end line, end character]`; `None` = full text.
    pub range: Option<[u32; 4]>,
    pub text: String,
}

#[derive(Clone, Debug, PartialEq)]
pub enum DiskOp {
    Write { path: String, text: String },
    WriteBytes { path: String, bytes: Vec<u8> },
    Remove { path: String },
    RemoveDir { path: String },
    MkDir { path: String },
    /// `path` becomes a symbolic link to `target` (relative to the scratch root unless absolute).
    Symlink { path: String, target: String },
    /// `path` becomes a named pipe.
    Fifo { path: String },
}

#[derive(Clone, Debug, PartialEq)]
pub enum Op {
    Open { uri: String, text: String },
    Change { uri: String, edits: Vec<Edit> },
    Close { uri: String },
    Save { uri: String },
    Request { id: i64, method: String, uri: String, pos: [u32; 2], extra: Value },
    Cancel { id: i64 },
    Watched { changes: Vec<(String, u32)> },
    Raw { msg: Value },
    Disk(DiskOp),
    /// Wait until nothing can move before the next operation.
    Barrier,
    /// At quiescence: read the server's copy of the document.
    ProbeText { uri: String },
}

#[derive(Clone, Debug, PartialEq)]
pub struct PlannedOp {
    pub op: Op,
    /// Byte offsets at which the framed message is cut into separately delivered fragments.
    pub cuts: Vec<usize>,
    /// Generator tags (`didChange.range.reversed`, ...) for violation signatures.
    pub tags: Vec<String>,
}

impl PlannedOp {
    pub fn new(op: Op) -> Self {
        PlannedOp { op, cuts: Vec::new(), tags: Vec::new() }
    }
    pub fn tagged(op: Op, tag: &str) -> Self {
        PlannedOp { op, cuts: Vec::new(), tags: vec![tag.to_string()] }
    }
}

fn pos_json(p: [u32; 2]) -> Value {
    json!({"line": p[0], "character": p[1]})
}

impl Op {
    pub fn to_message(&self, version: i32) -> Option<Value> {
        Some(match self {
            Op::Open { uri, text } => json!({"jsonrpc":"2.0","method":"textDocument/didOpen","params":{
                "textDocument":{"uri":uri,"languageId":"gleam","version":version,"text":text}}}),
            Op::Change { uri, edits } => json!({"jsonrpc":"2.0","method":"textDocument/didChange","params":{
                "textDocument":{"uri":uri,"version":version},
                "contentChanges": edits.iter().map(|e| match e.range {
                    Some(r) => json!({"range":{"start":pos_json([r[0],r[1]]),"end":pos_json([r[2],r[3]])},"text":e.text}),
                    None => json!({"text":e.text}),
                }).collect::<Vec<_>>() }}),
            Op::Close { uri } => json!({"jsonrpc":"2.0","method":"textDocument/didClose","params":{"textDocument":{"uri":uri}}}),
            Op::Save { uri } => json!({"jsonrpc":"2.0","method":"textDocument/didSave","params":{"textDocument":{"uri":uri}}}),
            Op::Request { id, method, uri, pos, extra } => {
                let td = json!({"uri": uri});
                let mut params = match method.as_str() {
                    "glas/syntaxTree" | "textDocument/semanticTokens/full" => json!({"textDocument": td}),
                    "textDocument/formatting" => json!({"textDocument": td, "options": {"tabSize": 2, "insertSpaces": true}}),
                    "textDocument/references" => json!({"textDocument": td, "position": pos_json(*pos), "context": {"includeDeclaration": true}}),
                    "shutdown" => Value::Null,
                    _ => json!({"textDocument": td, "position": pos_json(*pos)}),
                };
                if let (Some(p), Some(e)) = (params.as_object_mut(), extra.as_object()) {
                    for (k, v) in e {
                        p.insert(k.clone(), v.clone());
                    }
                }
                json!({"jsonrpc":"2.0","id":id,"method":method,"params":params})
            }
            Op::Cancel { id } => json!({"jsonrpc":"2.0","method":"$/cancelRequest","params":{"id":id}}),
            Op::Watched { changes } => json!({"jsonrpc":"2.0","method":"workspace/didChangeWatchedFiles","params":{
                "changes": changes.iter().map(|(u,t)| json!({"uri":u,"type":t})).collect::<Vec<_>>() }}),
            Op::Raw { msg } => msg.clone(),
            Op::Disk(_) | Op::Barrier | Op::ProbeText { .. } => return None,
        })
    }

    pub fn to_json(&self) -> Value {
        match self {
            Op::Open { uri, text } => json!({"op":"open","uri":uri,"text":text}),
            Op::Change { uri, edits } => json!({"op":"change","uri":uri,"edits": edits.iter().map(|e| json!({"range": e.range, "text": e.text})).collect::<Vec<_>>() }),
            Op::Close { uri } => json!({"op":"close","uri":uri}),
            Op::Save { uri } => json!({"op":"save","uri":uri}),
            Op::Request { id, method, uri, pos, extra } => json!({"op":"req","id":id,"method":method,"uri":uri,"pos":pos,"extra":extra}),
            Op::Cancel { id } => json!({"op":"cancel","id":id}),
            Op::Watched { changes } => json!({"op":"watched","changes":changes}),
            Op::Raw { msg } => json!({"op":"raw","msg":msg}),
            Op::Disk(d) => match d {
                DiskOp::Write { path, text } => json!({"op":"disk.write","path":path,"text":text}),
                DiskOp::WriteBytes { path, bytes } => json!({"op":"disk.write_bytes","path":path,"bytes":bytes}),
                DiskOp::Remove { path } => json!({"op":"disk.remove","path":path}),
                DiskOp::RemoveDir { path } => json!({"op":"disk.remove_dir","path":path}),
                DiskOp::MkDir { path } => json!({"op":"disk.mkdir","path":path}),
                DiskOp::Symlink { path, target } => json!({"op":"disk.symlink","path":path,"target":target}),
                DiskOp::Fifo { path } => json!({"op":"disk.fifo","path":path}),
            },
            Op::Barrier => json!({"op":"barrier"}),
            Op::ProbeText { uri } => json!({"op":"probe_text","uri":uri}),
        }
    }

    pub fn from_json(v: &Value) -> Op {
        let s = |k: &str| v[k].as_str().unwrap_or("").to_string();
        match v["op"].as_str().unwrap_or("") {
            "open" => Op::Open { uri: s("uri"), text: s("text") },
            "change" => Op::Change {
                uri: s("uri"),
                edits: v["edits"].as_array().map(|a| a.iter().map(|e| Edit {
                    range: e["range"].as_array().map(|r| {
                        let g = |i: usize| r[i].as_u64().unwrap_or(0) as u32;
                        [g(0), g(1), g(2), g(3)]
                    }),
                    text: e["text"].as_str().unwrap_or("").to_string(),
                }).collect()).unwrap_or_default(),
            },
            "close" => Op::Close { uri: s("uri") },
            "save" => Op::Save { uri: s("uri") },
            "req" => Op::Request {
                id: v["id"].as_i64().unwrap_or(0),
                method: s("method"),
                uri: s("uri"),
                pos: [v["pos"][0].as_u64().unwrap_or(0) as u32, v["pos"][1].as_u64().unwrap_or(0) as u32],
                extra: v["extra"].clone(),
            },
            "cancel" => Op::Cancel { id: v["id"].as_i64().unwrap_or(0) },
            "watched" => Op::Watched {
                changes: v["changes"].as_array().map(|a| a.iter().map(|c| (c[0].as_str().unwrap_or("").to_string(), c[1].as_u64().unwrap_or(1) as u32)).collect()).unwrap_or_default(),
            },
            "raw" => Op::Raw { msg: v["msg"].clone() },
            "disk.write" => Op::Disk(DiskOp::Write { path: s("path"), text: s("text") }),
            "disk.write_bytes" => Op::Disk(DiskOp::WriteBytes {
                path: s("path"),
                bytes: v["bytes"].as_array().map(|a| a.iter().map(|b| b.as_u64().unwrap_or(0) as u8).collect()).unwrap_or_default(),
            }),
            "disk.remove" => Op::Disk(DiskOp::Remove { path: s("path") }),
            "disk.remove_dir" => Op::Disk(DiskOp::RemoveDir { path: s("path") }),
            "disk.mkdir" => Op::Disk(DiskOp::MkDir { path: s("path") }),
            "disk.symlink" => Op::Disk(DiskOp::Symlink { path: s("path"), target: s("target") }),
            "disk.fifo" => Op::Disk(DiskOp::Fifo { path: s("path") }),
            "probe_text" => Op::ProbeText { uri: s("uri") },
            _ => Op::Barrier,
        }
    }
}

// ---------------------------------------------------------------------------------------------
// Session plan

#[derive(Clone, Debug)]
pub struct Session {
    pub property: String,
    pub seed: u64,
    pub run: u64,
    pub hash_seed: u64,
    pub concurrency: usize,
    pub gran: Granularity,
    pub policy: String,
    /// The client waits for quiescence before every operation.
    pub sequential: bool,
    /// Scratch directory of the run ("" = no disk use).
    pub root: String,
    /// Files to create under `root` before the server starts: (relative path, content).
    pub tree: Vec<(String, String)>,
    pub ops: Vec<PlannedOp>,
    /// (ordinal of spawned task, salsa event) at which to inject a panic.
    pub crashes: Vec<(u64, u64)>,
    /// Disk faults *inside* an operation of the server: (ordinal of the `disk:*` point the main
    /// loop reaches in this session, what happens to the disk while it is parked there).
    pub midload: Vec<(u64, DiskOp)>,
    /// Disk faults anchored to an operation: (index of the operation, ordinal of the `disk:*` point
    /// the main loop reaches after that operation was sent, what happens to the disk).
    pub midload_at: Vec<(usize, u64, DiskOp)>,
    pub decisions: Option<Vec<String>>,
    /// Targeted delay: a task parked at the first point is not scheduled until the main loop has
    /// passed the second point after that (or nothing else can run, or 400 steps have gone by).
    pub hold: Option<(String, String)>,
    /// Free-form, property specific (kept in the replay file).
    pub meta: Value,
}

pub fn preamble(root_uri: Option<&str>) -> Vec<PlannedOp> {
    preamble_caps(root_uri, false)
}

/// The first four operations of a session (initialize ... initialized), for reference sessions
/// that must talk to the server as the same kind of client.
pub fn preamble_of(s: &Session) -> Vec<PlannedOp> {
    s.ops.iter().take(4).map(|p| PlannedOp::new(p.op.clone())).collect()
}

/// `rich`: the client announces what a real editor announces (configuration, work-done progress,
/// dynamic registration of file watchers) and answers the requests the server then sends to it.
pub fn preamble_caps(root_uri: Option<&str>, rich: bool) -> Vec<PlannedOp> {
    let caps = if rich {
        json!({
            "general": {"positionEncodings": ["utf-16"]},
            "window": {"workDoneProgress": true, "showMessage": {"messageActionItem": {"additionalPropertiesSupport": true}}},
            "workspace": {"configuration": true, "didChangeWatchedFiles": {"dynamicRegistration": true, "relativePatternSupport": true}},
        })
    } else {
        json!({})
    };
    vec![
        PlannedOp::new(Op::Raw { msg: json!({"jsonrpc":"2.0","id":0,"method":"initialize","params":{
            "processId": null, "rootUri": root_uri, "capabilities": caps}}) }),
        PlannedOp::new(Op::Barrier),
        PlannedOp::new(Op::Raw { msg: json!({"jsonrpc":"2.0","method":"initialized","params":{}}) }),
        PlannedOp::new(Op::Barrier),
    ]
}

impl Session {
    /// Remove operations `lo..hi`; faults anchored to a removed operation go with it, the others
    /// keep pointing at the operation they were planned for.
    pub fn drain_ops(&mut self, lo: usize, hi: usize) {
        self.ops.drain(lo..hi);
        self.midload_at.retain(|(i, _, _)| *i < lo || *i >= hi);
        for (i, _, _) in self.midload_at.iter_mut() {
            if *i >= hi {
                *i -= hi - lo;
            }
        }
    }

    pub fn to_json(&self) -> Value {
        json!({
            "property": self.property, "engine": "lsp-sim", "seed": self.seed, "run": self.run, "hash_seed": self.hash_seed,
            "knobs": {"concurrency": self.concurrency, "granularity": self.gran.name(), "policy": self.policy, "sequential_client": self.sequential,
                      "hold": self.hold.as_ref().map(|(a, b)| json!([a, b]))},
            "root": self.root,
            "tree": self.tree,
            "workload": self.ops.iter().map(|p| { let mut j = p.op.to_json(); if !p.cuts.is_empty() { j["cuts"] = json!(p.cuts); } if !p.tags.is_empty() { j["tags"] = json!(p.tags); } j }).collect::<Vec<_>>(),
            "faults": self.crashes.iter().map(|(t, e)| json!({"kind":"crash","task":t,"at_salsa_event":e}))
                .chain(self.midload.iter().map(|(k, d)| json!({"kind":"disk_mid_operation","at_disk_point":k,"disk":Op::Disk(d.clone()).to_json()})))
                .chain(self.midload_at.iter().map(|(i, k, d)| json!({"kind":"disk_mid_operation","after_op":i,"at_disk_point":k,"disk":Op::Disk(d.clone()).to_json()})))
                .collect::<Vec<_>>(),
            "decisions": self.decisions,
            "meta": self.meta,
        })
    }

    pub fn from_json(v: &Value) -> Session {
        Session {
            property: v["property"].as_str().unwrap_or("").to_string(),
            seed: v["seed"].as_u64().unwrap_or(0),
            run: v["run"].as_u64().unwrap_or(0),
            hash_seed: v["hash_seed"].as_u64().unwrap_or(0),
            concurrency: v["knobs"]["concurrency"].as_u64().unwrap_or(4) as usize,
            gran: Granularity::parse(v["knobs"]["granularity"].as_str().unwrap_or("coarse")),
            policy: v["knobs"]["policy"].as_str().unwrap_or("").to_string(),
            sequential: v["knobs"]["sequential_client"].as_bool().unwrap_or(true),
            root: v["root"].as_str().unwrap_or("").to_string(),
            tree: v["tree"].as_array().map(|a| a.iter().map(|e| (e[0].as_str().unwrap_or("").to_string(), e[1].as_str().unwrap_or("").to_string())).collect()).unwrap_or_default(),
            ops: v["workload"].as_array().map(|a| a.iter().map(|o| PlannedOp {
                op: Op::from_json(o),
                cuts: o["cuts"].as_array().map(|c| c.iter().map(|x| x.as_u64().unwrap_or(0) as usize).collect()).unwrap_or_default(),
                tags: o["tags"].as_array().map(|c| c.iter().map(|x| x.as_str().unwrap_or("").to_string()).collect()).unwrap_or_default(),
            }).collect()).unwrap_or_default(),
            crashes: v["faults"].as_array().map(|a| a.iter().filter(|f| f["kind"] == "crash").map(|f| (f["task"].as_u64().unwrap_or(0), f["at_salsa_event"].as_u64().unwrap_or(0))).collect()).unwrap_or_default(),
            midload_at: v["faults"].as_array().map(|a| a.iter().filter(|f| f["kind"] == "disk_mid_operation" && f["after_op"].is_u64()).filter_map(|f| match Op::from_json(&f["disk"]) {
                Op::Disk(d) => Some((f["after_op"].as_u64().unwrap_or(0) as usize, f["at_disk_point"].as_u64().unwrap_or(0), d)),
                _ => None,
            }).collect()).unwrap_or_default(),
            midload: v["faults"].as_array().map(|a| a.iter().filter(|f| f["kind"] == "disk_mid_operation" && !f["after_op"].is_u64()).filter_map(|f| match Op::from_json(&f["disk"]) {
                Op::Disk(d) => Some((f["at_disk_point"].as_u64().unwrap_or(0), d)),
                _ => None,
            }).collect()).unwrap_or_default(),
            decisions: v["decisions"].as_array().map(|a| a.iter().map(|s| s.as_str().unwrap_or("").to_string()).collect()),
            hold: v["knobs"]["hold"].as_array().map(|a| (a[0].as_str().unwrap_or("").to_string(), a[1].as_str().unwrap_or("").to_string())),
            meta: v["meta"].clone(),
        }
    }
}

// ---------------------------------------------------------------------------------------------
// History

#[derive(Clone, Debug)]
pub enum Ev {
    /// Operation `op` was handed to the transport completely at `step`.
    Sent { op: usize, step: u64 },
    Recv { msg: Value, step: u64 },
    Probe { op: usize, uri: String, text: Option<String>, step: u64 },
    /// Everything settled with nothing enabled except the client.
    Quiescent { step: u64 },
}

#[derive(Clone, Debug, Default)]
pub struct History {
    pub events: Vec<Ev>,
    /// The main loop future ended: (step, reason). `None` = still alive at the end.
    pub server_exit: Option<(u64, String)>,
    /// Reached the end of the operation list and final quiescence.
    pub completed: bool,
    pub stall: Option<String>,
    pub degraded_free_run: bool,
    pub deadlock: Option<String>,
    pub poisoned: bool,
    /// The main loop thread was left asleep in its runtime (harmless for later runs).
    pub leaked_main: bool,
    /// Bytes the client had handed over that the main loop never read.
    pub unread_input: usize,
    /// Where the main loop thread stood when the run ended ("idle", "apply:begin", ...).
    pub main_final: String,
    pub steps: u64,
    pub contended: u64,
    pub trace_hash: u64,
    pub log_hash: u64,
    pub decisions: Vec<String>,
    pub log: Option<Vec<String>>,
    pub tasks_spawned: u64,
    pub probes: BTreeMap<String, u64>,
    pub faults: BTreeMap<String, u64>,
    pub replay_misses: u64,
    pub point_counts: BTreeMap<String, u64>,
    pub task_panics: u64,
}

impl History {
    pub fn responses(&self) -> BTreeMap<i64, Vec<&Value>> {
        let mut m: BTreeMap<i64, Vec<&Value>> = BTreeMap::new();
        for e in &self.events {
            if let Ev::Recv { msg, .. } = e {
                if msg.get("method").is_none() {
                    if let Some(id) = msg.get("id").and_then(|i| i.as_i64()) {
                        m.entry(id).or_default().push(msg);
                    }
                }
            }
        }
        m
    }
    pub fn notifications(&self, method: &str) -> Vec<&Value> {
        self.events
            .iter()
            .filter_map(|e| match e {
                Ev::Recv { msg, .. } if msg.get("method").and_then(|m| m.as_str()) == Some(method) => Some(msg),
                _ => None,
            })
            .collect()
    }
}

pub fn apply_disk(root: &str, d: &DiskOp) {
    let full = |p: &str| format!("{root}/{p}");
    // writing to a path that an earlier fault turned into a FIFO would put the *simulator* to
    // sleep in open(2): whatever is there that is not a regular file goes first
    let clear = |f: &str| {
        if let Ok(md) = std::fs::symlink_metadata(f) {
            if !md.is_file() && !md.is_dir() {
                let _ = std::fs::remove_file(f);
            }
        }
    };
    match d {
        DiskOp::Write { path, text } => {
            let f = full(path);
            if let Some(parent) = std::path::Path::new(&f).parent() {
                let _ = std::fs::create_dir_all(parent);
            }
            clear(&f);
            let _ = std::fs::write(f, text);
        }
        DiskOp::WriteBytes { path, bytes } => {
            let f = full(path);
            if let Some(parent) = std::path::Path::new(&f).parent() {
                let _ = std::fs::create_dir_all(parent);
            }
            clear(&f);
            let _ = std::fs::write(f, bytes);
        }
        DiskOp::Remove { path } => {
            let _ = std::fs::remove_file(full(path));
        }
        DiskOp::RemoveDir { path } => {
            let _ = std::fs::remove_dir_all(full(path));
        }
        DiskOp::MkDir { path } => {
            let f = full(path);
            let _ = std::fs::remove_file(&f);
            let _ = std::fs::create_dir_all(f);
        }
        DiskOp::Symlink { path, target } => {
            let f = full(path);
            let _ = std::fs::remove_file(&f);
            let _ = std::fs::remove_dir_all(&f);
            if let Some(parent) = std::path::Path::new(&f).parent() {
                let _ = std::fs::create_dir_all(parent);
            }
            let t = if target.starts_with('/') { target.clone() } else { full(target) };
            let _ = std::os::unix::fs::symlink(t, f);
        }
        DiskOp::Fifo { path } => {
            let f = full(path);
            let _ = std::fs::remove_file(&f);
            if let Ok(c) = std::ffi::CString::new(f) {
                unsafe {
                    libc::mkfifo(c.as_ptr(), 0o644);
                }
            }
        }
    }
}

struct MExit {
    reason: Option<String>,
}

/// Run one session under the controller. Installs its own controller for the duration.
pub fn run_session(s: &Session, keep_log: bool) -> History {
    hashseed::set_run_hash_seed(s.hash_seed);
    if !s.root.is_empty() {
        let _ = std::fs::remove_dir_all(scratch_top(&s.root));
        std::fs::create_dir_all(&s.root).expect("scratch root");
        for (p, t) in &s.tree {
            apply_disk(&s.root, &DiskOp::Write { path: p.clone(), text: t.clone() });
        }
    }
    let core = Core::new(s.gran, keep_log);
    core.with(|st| {
        for (t, e) in &s.crashes {
            st.task_crash_plan.insert(*t, *e);
        }
        // the loader's disk points are decision points only in sessions that plan a fault there
        st.gate_disk_points = !s.midload.is_empty() || !s.midload_at.is_empty();
    });
    crate::sysseam::ENABLED.store(!s.midload.is_empty() || !s.midload_at.is_empty(), std::sync::atomic::Ordering::SeqCst);
    hooks::install(Some(Arc::new(Handle(core.clone()))));
    let pipe = Pipe::new(core.clone());
    let mexit = Arc::new(Mutex::new(MExit { reason: None }));
    let (probe_tx, probe_rx) = std::sync::mpsc::channel::<glas::verif::VfsProbe>();

    let m = core.register("M");
    core.with(|st| st.threads.get_mut(&m).unwrap().is_main = true);
    let concurrency = std::num::NonZeroUsize::new(s.concurrency.max(1)).unwrap();
    let m_join = {
        let core = core.clone();
        let pipe = pipe.clone();
        let mexit = mexit.clone();
        std::thread::Builder::new()
            .name("M".into())
            .stack_size(32 << 20)
            .spawn(move || {
                hashseed::set_domain(7);
                let _ident = hooks::enter(core.ident(m));
                let r = catch_unwind(AssertUnwindSafe(|| {
                    let core2 = core.clone();
                    let rt = tokio::runtime::Builder::new_current_thread()
                        .enable_all()
                        .thread_keep_alive(Duration::from_nanos(1))
                        .thread_stack_size(32 << 20)
                        .on_thread_stop(move || core2.os_thread_stopping())
                        .on_thread_park(|| hooks::named("idle"))
                        .build()
                        .expect("runtime");
                    let (fut, probe) = glas::verif::server_with(SimIn(pipe.clone()), SimOut(pipe.clone()), concurrency);
                    let _ = probe_tx.send(probe);
                    let woken = Arc::new(std::sync::atomic::AtomicBool::new(true));
                    core.with(|st| st.root_woken = Some(woken.clone()));
                    let fut = Root { inner: Box::pin(fut), flag: Arc::new(RootFlag { woken, inner: Mutex::new(None) }) };
                    let r = rt.block_on(fut);
                    drop(rt);
                    r
                }));
                let reason = match r {
                    Ok(Ok(())) => "returned Ok".to_string(),
                    Ok(Err(e)) => format!("returned Err: {e:#}"),
                    Err(p) => format!("panicked: {}", crate::query::panic_msg(p)),
                };
                mexit.lock().unwrap().reason = Some(reason);
                drop(_ident);
                core.mark_done(m);
            })
            .unwrap()
    };

    let run_seed = mix(mix(s.seed, s.run), 0x15F);
    let mut rng = Rng::new(run_seed);
    let mut chooser = Chooser {
        policy: if s.sequential { Policy::Stay { num: 9, den: 10 } } else { Policy::draw(&mut rng, 300) },
        rng: rng.fork(1),
        replay: s.decisions.clone(),
        cursor: 0,
        last: None,
        replay_misses: 0,
    };

    let mut h = History::default();
    let mut outbuf: Vec<u8> = Vec::new();
    let mut next_op = 0usize;
    // partially delivered message: (bytes, next offset, cuts)
    let mut partial: Option<(Vec<u8>, usize, Vec<usize>, usize)> = None;
    let mut version = 0i32;
    let probe = probe_rx.recv_timeout(Duration::from_secs(20)).ok();
    const MAX_STEPS: u64 = 3_000_000;
    let mut closed_by_harness = false;
    let mut pending_replies: std::collections::VecDeque<Value> = std::collections::VecDeque::new();
    let mut replies_sent = 0u64;
    // `disk:*` points the main loop has been seen at: (count, step at which it parked last)
    let mut disk_points = 0u64;
    let mut last_disk_park: Option<u64> = None;
    let mut anchor_op: Option<usize> = None;
    let mut points_since_anchor = 0u64;

    loop {
        let mut st = match core.wait_settled() {
            Ok(st) => st,
            Err(Stall::Watchdog(msg)) => {
                h.stall = Some(msg);
                break;
            }
        };
        // everything is parked: the output buffer is stable
        let step = st.step;
        drop(st);
        outbuf.extend(pipe.take_output());
        for msg in parse_frames(&mut outbuf) {
            // a request of the server to the client: the client model answers it (when, the
            // scheduler decides)
            if let (Some(id), Some(method)) = (msg.get("id"), msg.get("method").and_then(|m| m.as_str())) {
                let reply = match method {
                    "workspace/configuration" => {
                        let n = msg["params"]["items"].as_array().map_or(1, |a| a.len());
                        // one answer in seven is an error (the editor has no such section, the
                        // user closed the window ...): legal, and the server must carry on
                        match crate::rng::mix(crate::rng::mix(s.seed, s.run), replies_sent + pending_replies.len() as u64) % 7 {
                            0 => {
                                *h.faults.entry("client_answers_with_error".into()).or_insert(0) += 1;
                                json!({"jsonrpc":"2.0","id": id, "error": {"code": -32603, "message": "no configuration available"}})
                            }
                            k => {
                                let item = match k % 3 {
                                    0 => Value::Null,
                                    1 => json!({}),
                                    _ => json!({"diagnostics": {"ignored": []}}),
                                };
                                json!({"jsonrpc":"2.0","id": id, "result": vec![item; n]})
                            }
                        }
                    }
                    "window/workDoneProgress/create" | "client/registerCapability" | "client/unregisterCapability" => {
                        json!({"jsonrpc":"2.0","id": id, "result": null})
                    }
                    "window/showMessageRequest" => json!({"jsonrpc":"2.0","id": id, "result": null}),
                    _ => json!({"jsonrpc":"2.0","id": id, "error": {"code": -32601, "message": "method not found"}}),
                };
                pending_replies.push_back(reply);
                *h.probes.entry(format!("server_request.{method}")).or_insert(0) += 1;
            }
            h.events.push(Ev::Recv { msg, step });
        }
        st = core.lock();
        // ---- disk fault inside an operation: the main loop is parked between two of the
        // loader's accesses to the disk (it looked, it has not read yet)
        if !s.midload.is_empty() || !s.midload_at.is_empty() {
            let at = {
                let t = &st.threads[&m];
                match (&t.status, &t.point) {
                    (Status::Parked, Some(p)) if p.kind.label().starts_with("disk:") => Some((p.kind.label(), t.parked_at_step)),
                    _ => None,
                }
            };
            if let Some((label, parked)) = at {
                if last_disk_park != Some(parked) {
                    last_disk_park = Some(parked);
                    disk_points += 1;
                    // faults anchored to an operation count the points since that operation was sent
                    let last_sent = h.events.iter().rev().find_map(|e| match e { Ev::Sent { op, .. } => Some(*op), _ => None });
                    if last_sent != anchor_op {
                        anchor_op = last_sent;
                        points_since_anchor = 0;
                    }
                    points_since_anchor += 1;
                    let anchored = s.midload_at.iter().filter(|(i, k, _)| Some(*i) == anchor_op && *k == points_since_anchor).map(|(_, _, d)| d);
                    for d in anchored {
                        apply_disk(&s.root, d);
                        *h.faults.entry("disk_mid_operation".into()).or_insert(0) += 1;
                        *h.faults.entry(format!("disk_mid_operation@{label}")).or_insert(0) += 1;
                        *h.faults.entry("disk_mid_operation.anchored_to_message".into()).or_insert(0) += 1;
                        st.log(Some(0), || format!("disk fault at {label} #{points_since_anchor} after op {anchor_op:?}"));
                    }
                    for (k, d) in &s.midload {
                        if *k == disk_points {
                            apply_disk(&s.root, d);
                            *h.faults.entry("disk_mid_operation".into()).or_insert(0) += 1;
                            *h.faults.entry(format!("disk_mid_operation@{label}")).or_insert(0) += 1;
                            st.log(Some(0), || format!("disk fault at {label} #{disk_points}"));
                        }
                    }
                }
            }
        }
        if st.threads[&m].status == Status::Done {
            let reason = mexit.lock().unwrap().reason.clone().unwrap_or_default();
            h.server_exit = Some((step, reason));
            break;
        }
        if st.step >= MAX_STEPS {
            h.deadlock = Some(format!("no quiescence within {MAX_STEPS} steps"));
            break;
        }
        let mut threads = st.enabled_threads();
        if let Some((hold_at, until)) = &s.hold {
            let now = st.step;
            let held: Vec<Tid> = threads
                .iter()
                .copied()
                .filter(|t| {
                    let th = &st.threads[t];
                    !th.is_main
                        && matches!(&th.point, Some(p) if p.kind.label() == hold_at)
                        && st.main_point_steps.get(until.as_str()).copied().unwrap_or(0) <= th.parked_at_step
                        && now < th.parked_at_step + 400
                })
                .collect();
            if !held.is_empty() && held.len() < threads.len() {
                threads.retain(|t| !held.contains(t));
                *h.faults.entry("targeted_stall".into()).or_insert(0) += 1;
            }
        }
        let mut labels: Vec<String> = threads.iter().map(|t| st.threads[t].name.clone()).collect();
        // ---- client action
        let mut client_enabled = false;
        if partial.is_some() {
            client_enabled = !s.sequential || threads.is_empty();
        } else if next_op < s.ops.len() {
            let needs_quiet = s.sequential
                || matches!(s.ops[next_op].op, Op::Barrier | Op::ProbeText { .. });
            client_enabled = !needs_quiet || (threads.is_empty() && pending_replies.is_empty());
        }
        if client_enabled {
            labels.push("client".into());
        }
        let reply_enabled = !pending_replies.is_empty() && partial.is_none() && (!s.sequential || threads.is_empty());
        if reply_enabled {
            labels.push("client.reply".into());
        }
        if labels.is_empty() {
            if next_op >= s.ops.len() && partial.is_none() {
                // Final quiescence. Is anybody blocked for good?
                let stuck = st
                    .threads
                    .values()
                    .any(|t| matches!(t.status, Status::BlockedOnSnapshots | Status::BlockedReal | Status::Unstarted) || (t.status == Status::Parked && !t.is_main));
                if stuck {
                    h.deadlock = Some(st.describe());
                } else {
                    h.completed = true;
                    h.events.push(Ev::Quiescent { step });
                }
            } else {
                h.deadlock = Some(st.describe());
            }
            break;
        }
        let i = chooser.choose(st.step, &labels);
        Core::record_decision(&mut st, &labels[i], labels.len());
        if i < threads.len() {
            let id = threads[i];
            let is_idle = st.threads[&id].is_main && matches!(&st.threads[&id].point, Some(p) if p.kind == PKind::Named("idle"));
            if is_idle {
                // never let the main loop sleep in the driver while we wait for it
                pipe.wake();
            }
            if let Err(e) = core.release(st, id) {
                h.deadlock = Some(e);
                break;
            }
            continue;
        }
        // ---- perform the client action
        let step = st.step;
        drop(st);
        if labels[i] == "client.reply" {
            let reply = pending_replies.pop_front().unwrap();
            pipe.push(&frame(&reply));
            core.with(|st| st.wake_owed = true);
            replies_sent += 1;
            *h.probes.entry("server_request_answered".into()).or_insert(0) += 1;
            continue;
        }
        if let Some((bytes, off, cuts, op_idx)) = partial.take() {
            let next_cut = cuts.iter().copied().find(|c| *c > off && *c < bytes.len()).unwrap_or(bytes.len());
            pipe.push(&bytes[off..next_cut]);
            core.with(|st| st.wake_owed = true);
            if next_cut < bytes.len() {
                partial = Some((bytes, next_cut, cuts, op_idx));
                *h.faults.entry("fragmentation".into()).or_insert(0) += 1;
            } else {
                h.events.push(Ev::Sent { op: op_idx, step });
            }
            continue;
        }
        let pop = &s.ops[next_op];
        let op_idx = next_op;
        next_op += 1;
        match &pop.op {
            Op::Barrier => {
                h.events.push(Ev::Quiescent { step });
            }
            Op::Disk(d) => {
                apply_disk(&s.root, d);
                *h.faults.entry("disk_state".into()).or_insert(0) += 1;
                h.events.push(Ev::Sent { op: op_idx, step });
            }
            Op::ProbeText { uri } => {
                let text = probe.as_ref().and_then(|p| match lsp_types::Url::parse(uri) {
                    Ok(u) => p.text_for_uri(&u).ok().flatten().map(|t| t.to_string()),
                    Err(_) => None,
                });
                h.events.push(Ev::Probe { op: op_idx, uri: uri.clone(), text, step });
            }
            op => {
                if matches!(op, Op::Open { .. } | Op::Change { .. }) {
                    version += 1;
                }
                if let Op::Cancel { id } = op {
                    *h.faults.entry("cancel_request".into()).or_insert(0) += 1;
                    let answered = h.events.iter().any(|e| matches!(e, Ev::Recv { msg, .. } if msg.get("method").is_none() && msg.get("id").and_then(|i| i.as_i64()) == Some(*id)));
                    if !answered {
                        *h.probes.entry("cancel_request_for_unanswered_request".into()).or_insert(0) += 1;
                    }
                }
                let msg = op.to_message(version).unwrap();
                let bytes = frame(&msg);
                let first = pop.cuts.iter().copied().find(|c| *c > 0 && *c < bytes.len()).unwrap_or(bytes.len());
                pipe.push(&bytes[..first]);
                core.with(|st| st.wake_owed = true);
                if first < bytes.len() {
                    partial = Some((bytes, first, pop.cuts.clone(), op_idx));
                    *h.faults.entry("fragmentation".into()).or_insert(0) += 1;
                } else {
                    h.events.push(Ev::Sent { op: op_idx, step });
                    // messages the editor writes in one go with this one
                    while next_op < s.ops.len()
                        && s.ops[next_op].tags.iter().any(|t| t == "glued")
                        && matches!(s.ops[next_op].op, Op::Open { .. } | Op::Change { .. } | Op::Close { .. } | Op::Save { .. } | Op::Request { .. } | Op::Cancel { .. } | Op::Watched { .. } | Op::Raw { .. })
                    {
                        let g = &s.ops[next_op];
                        if matches!(g.op, Op::Open { .. } | Op::Change { .. }) {
                            version += 1;
                        }
                        let msg = g.op.to_message(version).unwrap();
                        pipe.push(&frame(&msg));
                        h.events.push(Ev::Sent { op: next_op, step });
                        *h.faults.entry("messages_in_one_write".into()).or_insert(0) += 1;
                        next_op += 1;
                    }
                }
            }
        }
    }

    // ---- teardown
    h.unread_input = pipe.unread_input();
    h.main_final = core.with(|st| {
        let t = &st.threads[&m];
        format!("{:?}@{}", t.status, t.point.as_ref().map_or("-", |p| p.kind.label()))
    });
    let others_done = core.with(|st| st.threads.iter().all(|(id, t)| *id == m || t.status == Status::Done));
    let alive = h.server_exit.is_none();
    if alive && h.stall.is_none() && h.deadlock.is_none() {
        closed_by_harness = true;
    }
    pipe.close_input();
    core.free_run();
    pipe.wake();
    let unanswered = {
        let answered = h.responses();
        h.events
            .iter()
            .filter(|e| match e {
                Ev::Sent { op, .. } => match &s.ops[*op].op {
                    Op::Request { id, .. } => !answered.contains_key(id),
                    _ => false,
                },
                _ => false,
            })
            .count()
    };
    let patience = if h.main_final == "Parked@idle" && unanswered > 0 && h.stall.is_none() {
        // the main loop has stopped reading; end of input will not reach it either
        2
    } else if h.deadlock.is_some() && h.stall.is_none() {
        // everything is parked or blocked according to the model: a short confirmation will do
        3
    } else {
        20
    };
    let drained = core.wait_all_done(Duration::from_millis(match patience { 2 => 300, 3 => 3_000, _ => 20_000 }));
    if !drained {
        // a second nudge: the main loop may have parked between close and wake
        pipe.wake();
    }
    let drained = drained || core.wait_all_done(Duration::from_millis(if patience == 2 { 300 } else { 5_000 }));
    hooks::install(None);
    crate::sysseam::ENABLED.store(false, std::sync::atomic::Ordering::SeqCst);
    if drained {
        let _ = m_join.join();
        if h.stall.is_some() {
            // it was the simulator that held things up
            h.degraded_free_run = true;
        } else if h.deadlock.is_some() {
            h.degraded_free_run = true;
            h.deadlock = None;
        }
    } else {
        // The main loop does not come back even on end of input. If it is merely asleep in its
        // runtime (everything else finished), the thread can stay behind without harm.
        let only_main = core.with(|st| st.threads.iter().all(|(id, t)| *id == m || t.status == Status::Done));
        if only_main && others_done && h.main_final == "Parked@idle" {
            h.leaked_main = true;
        } else {
            h.poisoned = true;
        }
        if h.deadlock.is_none() {
            h.deadlock = Some(h.stall.clone().unwrap_or_else(|| format!("the main loop ({}) does not end on end of input; {} bytes of input unread", h.main_final, h.unread_input)));
        }
    }
    let _ = closed_by_harness;
    outbuf.extend(pipe.take_output());
    let last_step = h.steps;
    let _ = last_step;
    {
        let mut st = core.lock();
        h.steps = st.step;
        h.contended = st.contended;
        h.trace_hash = st.trace_hash.0;
        h.log_hash = st.log_digest();
        h.decisions = std::mem::take(&mut st.decisions);
        h.log = st.log.take();
        h.tasks_spawned = st.spawned_tasks;
        h.replay_misses = chooser.replay_misses;
        for (k, v) in &st.point_counts {
            h.point_counts.insert(k.to_string(), *v);
        }
        let p = &st.probes;
        for (k, v) in [
            ("write_while_task_in_query", p.write_while_in_query),
            ("write_pending_rounds", p.write_pending_rounds),
            ("task_blocked_on_task", p.reader_blocked_on_reader),
            ("crash_while_peer_blocked", p.crash_while_peer_blocked),
            ("os_level_blocked_detected", p.os_blocked),
            ("edit_stored_while_task_unstarted", p.edit_stored_while_task_unstarted),
            ("edit_stored_while_task_in_query", p.edit_stored_while_task_in_query),
            ("store_read_inside_update_window", p.store_read_inside_update_window),
            ("task_end_after_later_task_exit", p.task_end_after_later_task_exit),
            ("spawned_task_not_started_in_time", p.spawned_thread_not_started),
        ] {
            h.probes.insert(k.into(), v);
        }
        h.faults.insert("query_crash".into(), p.crash_fired);
        h.faults.insert("write_pending".into(), p.write_pending_rounds);
    }
    // messages written during teardown are not part of the history
    if !s.root.is_empty() && std::env::var("VERIF_KEEP_SCRATCH").is_err() {
        let _ = std::fs::remove_dir_all(scratch_top(&s.root));
    }
    h
}

pub fn scratch_root(prop: &str, seed: u64, run: u64) -> String {
    let base = std::env::var("VERIF_SCRATCH").unwrap_or_else(|_| "/dev/shm/glas-sim".into());
    format!("{base}/{prop}-{seed}-{run}")
}

/// The per-run directory a session root lives in (the root itself, or an ancestor of it when the
/// project is placed deeper, e.g. `<run dir>/src`).
fn scratch_top(root: &str) -> String {
    let base = std::env::var("VERIF_SCRATCH").unwrap_or_else(|_| "/dev/shm/glas-sim".into());
    match root.strip_prefix(&format!("{base}/")) {
        Some(rest) => format!("{base}/{}", rest.split('/').next().unwrap_or(rest)),
        None => root.to_string(),
    }
}

pub fn uri_for(root: &str, rel: &str) -> String {
    format!("file://{root}/{rel}")
}

#[allow(dead_code)]
pub fn tid_name(core: &Core, t: Tid) -> String {
    core.with(|st| st.name(t))
}

// ---------------------------------------------------------------------------------------------
// The editor's side of a document (LSP 3.17 semantics)

#[derive(Clone, Debug, PartialEq)]
pub struct DocModel {
    pub text: String,
}

/// A carriage return that is not followed by a line feed. The properties speak of LF and CRLF
/// line breaks only; a history that produces a lone CR is outside their quantifier.
pub fn has_lone_cr(text: &str) -> bool {
    let b = text.as_bytes();
    (0..b.len()).any(|i| b[i] == b'\r' && b.get(i + 1) != Some(&b'\n'))
}

impl DocModel {
    /// Byte ranges of the lines (content only) and of their terminators.
    pub fn lines(&self) -> Vec<(usize, usize, usize)> {
        // (content start, content end, next line start)
        let b = self.text.as_bytes();
        let mut v = Vec::new();
        let mut start = 0;
        let mut i = 0;
        while i < b.len() {
            if b[i] == b'\n' {
                v.push((start, i, i + 1));
                start = i + 1;
                i += 1;
            } else if b[i] == b'\r' && i + 1 < b.len() && b[i + 1] == b'\n' {
                v.push((start, i, i + 2));
                start = i + 2;
                i += 2;
            } else {
                i += 1;
            }
        }
        v.push((start, b.len(), b.len()));
        v
    }

    pub fn line_count(&self) -> u32 {
        self.lines().len() as u32
    }

    /// UTF-16 length of the content of `line`.
    pub fn line_len16(&self, line: u32) -> u32 {
        let ls = self.lines();
        let (s, e, _) = ls[line as usize];
        self.text[s..e].encode_utf16().count() as u32
    }

    /// Byte offset of an LSP position: column clamped to the line length, as the specification
    /// says; `None` if the line does not exist or the column falls inside a surrogate pair.
    pub fn offset(&self, line: u32, col: u32) -> Option<usize> {
        let ls = self.lines();
        let (s, e, _) = *ls.get(line as usize)?;
        let mut units = 0u32;
        for (i, c) in self.text[s..e].char_indices() {
            if units == col {
                return Some(s + i);
            }
            if units > col {
                return None;
            }
            units += c.len_utf16() as u32;
        }
        if units < col || units == col {
            return Some(e);
        }
        None
    }

    pub fn apply(&mut self, e: &Edit) -> Result<(), String> {
        match e.range {
            None => {
                self.text = e.text.clone();
                Ok(())
            }
            Some([l1, c1, l2, c2]) => {
                let a = self.offset(l1, c1).ok_or("start position invalid")?;
                let b = self.offset(l2, c2).ok_or("end position invalid")?;
                if a > b {
                    return Err("start after end".into());
                }
                self.text.replace_range(a..b, &e.text);
                Ok(())
            }
        }
    }

    /// What the server is supposed to hold: the text without carriage returns.
    pub fn normalized(&self) -> String {
        self.text.replace('\r', "")
    }

    /// A valid position: existing line, column on a character boundary within the line content.
    pub fn random_pos(&self, rng: &mut Rng) -> [u32; 2] {
        let ls = self.lines();
        let line = rng.below(ls.len());
        let (s, e, _) = ls[line];
        let mut cols = vec![0u32];
        let mut units = 0;
        for c in self.text[s..e].chars() {
            units += c.len_utf16() as u32;
            cols.push(units);
        }
        [line as u32, *rng.pick(&cols)]
    }

    pub fn random_range(&self, rng: &mut Rng) -> [u32; 4] {
        let a = self.random_pos(rng);
        let b = if rng.chance(1, 3) { a } else { self.random_pos(rng) };
        let (a, b) = if (a[0], a[1]) <= (b[0], b[1]) { (a, b) } else { (b, a) };
        [a[0], a[1], b[0], b[1]]
    }
}
