//! Gleam source generator, mutators and the plain-data workspace model used as reference.
use crate::rng::Rng;
use serde_json::{json, Value};
use std::collections::BTreeMap;

const FN_NAMES: &[&str] = &["main", "helper", "twice", "area", "render", "go", "wibble"];
const TYPE_NAMES: &[&str] = &["Animal", "Shape", "Wobble", "Item"];
const VARIANTS: &[&str] = &["Cat", "Dog", "Circle", "Square", "Leaf", "Node"];
const FIELDS: &[&str] = &["name", "lives", "size", "left", "next"];
const VARS: &[&str] = &["x", "y", "acc", "cat", "n"];
const MODS: &[&str] = &["a", "b", "c", "util", "deep/m"];

#[derive(Clone, Debug)]
pub struct ModuleShape {
    pub fns: Vec<String>,
    pub types: Vec<(String, Vec<(String, Vec<String>)>)>,
    pub consts: Vec<String>,
}

fn gen_shape(rng: &mut Rng) -> ModuleShape {
    let mut fns: Vec<String> = Vec::new();
    for _ in 0..rng.range(1, 4) {
        let n = rng.pick(FN_NAMES).to_string();
        if !fns.contains(&n) {
            fns.push(n);
        }
    }
    let mut types = Vec::new();
    for _ in 0..rng.range(0, 2) {
        let t = rng.pick(TYPE_NAMES).to_string();
        if types.iter().any(|(n, _): &(String, _)| *n == t) {
            continue;
        }
        let mut variants = Vec::new();
        for _ in 0..rng.range(1, 3) {
            let v = rng.pick(VARIANTS).to_string();
            if variants.iter().any(|(n, _): &(String, _)| *n == v) {
                continue;
            }
            let mut fields = Vec::new();
            for _ in 0..rng.range(0, 2) {
                let f = rng.pick(FIELDS).to_string();
                if !fields.contains(&f) {
                    fields.push(f);
                }
            }
            variants.push((v, fields));
        }
        types.push((t, variants));
    }
    let consts = if rng.chance(1, 3) {
        vec!["limit".to_string()]
    } else {
        vec![]
    };
    ModuleShape { fns, types, consts }
}

/// Generate the text of one module that may import the modules in `others` (name, shape).
const DOC_WORDS: &[&str] = &["A", "round", "solid", "shape", "thing", "makes", "takes", "gives", "small", "large", "value", "of", "the"];

fn doc_words(rng: &mut Rng) -> String {
    (0..rng.range(1, 4)).map(|_| *rng.pick(DOC_WORDS)).collect::<Vec<_>>().join(" ")
}

pub fn gen_module(rng: &mut Rng, others: &[(String, ModuleShape)]) -> (String, ModuleShape) {
    let shape = gen_shape(rng);
    let mut out = String::new();
    // (accessor, shape, unqualified fn names, unqualified constructors)
    let mut imported: Vec<(String, &ModuleShape, Vec<String>, Vec<String>)> = Vec::new();
    for (name, oshape) in others {
        if !rng.chance(2, 3) {
            continue;
        }
        let last = name.rsplit('/').next().unwrap().to_string();
        let mut unq_f = Vec::new();
        let mut unq_c = Vec::new();
        let mut items = Vec::new();
        if rng.chance(1, 2) {
            for f in &oshape.fns {
                if rng.chance(1, 2) {
                    if rng.chance(1, 4) {
                        items.push(format!("{f} as {f}_"));
                        unq_f.push(format!("{f}_"));
                    } else {
                        items.push(f.clone());
                        unq_f.push(f.clone());
                    }
                }
            }
            for (t, vs) in &oshape.types {
                if rng.chance(1, 2) {
                    items.push(format!("type {t}"));
                }
                for (v, _) in vs {
                    if rng.chance(1, 2) {
                        items.push(v.clone());
                        unq_c.push(v.clone());
                    }
                }
            }
        }
        let mut line = format!("import {name}");
        if !items.is_empty() {
            line += &format!(".{{{}}}", items.join(", "));
        }
        let accessor = if rng.chance(1, 4) {
            let alias = format!("{last}x");
            line += &format!(" as {alias}");
            alias
        } else {
            last
        };
        out += &line;
        out.push('\n');
        imported.push((accessor, oshape, unq_f, unq_c));
    }
    if !imported.is_empty() {
        out.push('\n');
    }
    for (t, vs) in &shape.types {
        let vis = if rng.chance(2, 3) { "pub " } else { "" };
        if rng.chance(1, 3) {
            out += &format!("/// {}\n", doc_words(rng));
        }
        out += &format!("{vis}type {t} {{\n");
        for (v, fs) in vs {
            if rng.chance(1, 3) {
                out += &format!("  /// {}\n", doc_words(rng));
            }
            if fs.is_empty() {
                out += &format!("  {v}\n");
            } else {
                let fields = fs
                    .iter()
                    .map(|f| {
                        if rng.chance(3, 4) {
                            format!("{f}: Int")
                        } else {
                            "Int".to_string()
                        }
                    })
                    .collect::<Vec<_>>()
                    .join(", ");
                out += &format!("  {v}({fields})\n");
            }
        }
        out += "}\n\n";
    }
    for c in &shape.consts {
        out += &format!("pub const {c} = {}\n\n", rng.below(100));
    }
    for (i, f) in shape.fns.iter().enumerate() {
        let vis = if rng.chance(2, 3) { "pub " } else { "" };
        let nparams = rng.below(3);
        let params = (0..nparams)
            .map(|k| {
                let v = VARS[k % VARS.len()];
                match rng.below(3) {
                    0 => v.to_string(),
                    1 => format!("{v}: Int"),
                    _ => format!("lbl{k} {v}: Int"),
                }
            })
            .collect::<Vec<_>>()
            .join(", ");
        let ret = if rng.chance(1, 3) { " -> Int" } else { "" };
        if rng.chance(1, 4) {
            out += &format!("/// {}\n", doc_words(rng));
        }
        out += &format!("{vis}fn {f}({params}){ret} {{\n");
        let nstmts = rng.range(1, 4);
        for s in 0..nstmts {
            let last = s + 1 == nstmts;
            let expr = gen_expr(rng, &shape, i, &imported, nparams, 0);
            if last || rng.chance(1, 3) {
                out += &format!("  {expr}\n");
            } else {
                let v = rng.pick(VARS);
                out += &format!("  let {v} = {expr}\n");
            }
        }
        out += "}\n\n";
    }
    (out, shape)
}

fn gen_expr(
    rng: &mut Rng,
    shape: &ModuleShape,
    _cur: usize,
    imported: &[(String, &ModuleShape, Vec<String>, Vec<String>)],
    nparams: usize,
    depth: u32,
) -> String {
    let arg = |rng: &mut Rng| -> String {
        if nparams > 0 && rng.chance(1, 2) {
            VARS[rng.below(nparams)].to_string()
        } else {
            rng.below(10).to_string()
        }
    };
    match rng.below(if depth > 1 { 5 } else { 9 }) {
        0 => rng.below(100).to_string(),
        1 => rng.pick(VARS).to_string(),
        2 => {
            // local call
            let f = rng.pick(&shape.fns);
            format!("{f}({})", arg(rng))
        }
        3 if !imported.is_empty() => {
            let (acc, oshape, unq_f, _) = rng.pick(imported);
            if !unq_f.is_empty() && rng.chance(1, 2) {
                format!("{}({})", rng.pick(unq_f), arg(rng))
            } else if !oshape.fns.is_empty() {
                format!("{acc}.{}({})", rng.pick(&oshape.fns), arg(rng))
            } else if !oshape.consts.is_empty() {
                format!("{acc}.{}", oshape.consts[0])
            } else {
                format!("{acc}.missing")
            }
        }
        4 => {
            // constructor (local or imported)
            let mut pool: Vec<(Option<String>, &(String, Vec<String>))> = Vec::new();
            for (_, vs) in &shape.types {
                for v in vs {
                    pool.push((None, v));
                }
            }
            for (acc, oshape, _, unq_c) in imported {
                for (_, vs) in &oshape.types {
                    for v in vs {
                        if unq_c.contains(&v.0) {
                            pool.push((None, v));
                        } else {
                            pool.push((Some(acc.clone()), v));
                        }
                    }
                }
            }
            if pool.is_empty() {
                return "Nil".to_string();
            }
            let (acc, (v, fs)) = rng.pick(&pool).clone();
            let head = match acc {
                Some(a) => format!("{a}.{v}"),
                None => v.clone(),
            };
            if fs.is_empty() {
                head
            } else {
                let args = fs
                    .iter()
                    .map(|f| {
                        if rng.chance(1, 2) {
                            format!("{f}: {}", rng.below(10))
                        } else {
                            rng.below(10).to_string()
                        }
                    })
                    .collect::<Vec<_>>()
                    .join(", ");
                format!("{head}({args})")
            }
        }
        5 => {
            let a = gen_expr(rng, shape, _cur, imported, nparams, depth + 1);
            let b = gen_expr(rng, shape, _cur, imported, nparams, depth + 1);
            format!("{a} {} {b}", rng.pick(&["+", "-", "==", "|>", "<>"]))
        }
        6 => {
            // case over something with constructor patterns
            let subj = gen_expr(rng, shape, _cur, imported, nparams, depth + 1);
            let mut arms = String::new();
            let all: Vec<&(String, Vec<String>)> =
                shape.types.iter().flat_map(|(_, vs)| vs.iter()).collect();
            for _ in 0..rng.range(1, 2) {
                if all.is_empty() || rng.chance(1, 3) {
                    arms += &format!("    {} -> {}\n", rng.pick(VARS), rng.below(10));
                } else {
                    let (v, fs) = rng.pick(&all);
                    if fs.is_empty() {
                        arms += &format!("    {v} -> {}\n", rng.below(10));
                    } else if rng.chance(1, 2) {
                        arms += &format!("    {v}({}: n, ..) -> n\n", fs[0]);
                    } else {
                        let pats = fs.iter().map(|_| "n").collect::<Vec<_>>().join(", ");
                        arms += &format!("    {v}({pats}) -> n\n");
                    }
                }
            }
            format!("case {subj} {{\n{arms}  }}")
        }
        7 => {
            let v = rng.pick(VARS);
            let f = rng.pick(FIELDS);
            format!("{v}.{f}")
        }
        _ => {
            let a = gen_expr(rng, shape, _cur, imported, nparams, depth + 1);
            format!("fn(z) {{ z + {a} }}")
        }
    }
}

// ---------------------------------------------------------------------------------------------
// Mutators

fn char_floor(s: &str, mut i: usize) -> usize {
    i = i.min(s.len());
    while !s.is_char_boundary(i) {
        i -= 1;
    }
    i
}

const SNIPPETS: &[&str] = &[
    " ", "\n", "(", ")", "{", "}", ".", ",", "x", "a", "fn ", "let ", "import ", "pub ", "=", "\"",
    "1", "ß", "💣", "->", "|>", "type ", "_", ":", "//", "case ", "..",
];

/// Apply one random textual edit. Returns (new text, kind tag).
pub fn mutate(rng: &mut Rng, text: &str) -> (String, &'static str) {
    let mut s = text.to_string();
    match rng.below(12) {
        11 => {
            // rewrite a doc comment without moving anything: same length, other words
            let docs: Vec<(usize, usize)> = s
                .match_indices("/// ")
                .map(|(i, _)| (i + 4, s[i..].find('\n').map_or(s.len(), |e| i + e)))
                .filter(|(a, b)| b > a)
                .collect();
            if docs.is_empty() {
                return (s, "edit.none");
            }
            let (a, b) = *rng.pick(&docs);
            let old: Vec<char> = s[a..b].chars().collect();
            let new: String = old.iter().map(|c| if c.is_ascii_lowercase() { (((*c as u8 - b'a' + 7) % 26) + b'a') as char } else { *c }).collect();
            s.replace_range(a..b, &new);
            (s, "edit.doc_rewrite_same_length")
        }
        9 | 10 => {
            // rename something the module DECLARES (a type, a constructor, a function, a
            // constant) wherever it occurs in the file: what an editor's rename does, and what
            // makes an answer computed earlier wrong without moving anything
            let idents = ident_spans(&s);
            let mut decls: Vec<String> = Vec::new();
            for (k, (a, b)) in idents.iter().enumerate() {
                let w = &s[*a..*b];
                let after_kw = k > 0 && matches!(&s[idents[k - 1].0..idents[k - 1].1], "type" | "fn" | "const");
                let line_start = s[..*a].rfind('\n').map_or(0, |i| i + 1);
                let variant = w.chars().next().map_or(false, |c| c.is_ascii_uppercase()) && s[line_start..*a].trim().is_empty() && *a > line_start;
                if (after_kw || variant) && !decls.iter().any(|d| d == w) {
                    decls.push(w.to_string());
                }
            }
            if decls.is_empty() {
                return (s, "edit.none");
            }
            let old = rng.pick(&decls).clone();
            let new = if old.chars().next().map_or(false, |c| c.is_ascii_uppercase()) { format!("{old}R") } else { format!("{old}_r") };
            let mut out = String::new();
            let mut last = 0;
            for (a, b) in idents {
                if s[a..b] == old {
                    out += &s[last..a];
                    out += &new;
                    last = b;
                }
            }
            out += &s[last..];
            (out, "edit.rename_decl")
        }
        0 => {
            let i = char_floor(&s, rng.below(s.len() + 1));
            s.insert_str(i, *rng.pick(SNIPPETS));
            (s, "edit.insert")
        }
        1 if !s.is_empty() => {
            let i = char_floor(&s, rng.below(s.len()));
            let j = char_floor(&s, (i + rng.range(1, 6)).min(s.len()));
            if i < j {
                s.replace_range(i..j, "");
            }
            (s, "edit.delete")
        }
        2 if !s.is_empty() => {
            // token edit: rename one identifier occurrence
            let idents: Vec<(usize, usize)> = ident_spans(&s);
            if idents.is_empty() {
                return (s, "edit.none");
            }
            let (a, b) = *rng.pick(&idents);
            let pool: Vec<&str> = FN_NAMES
                .iter()
                .chain(VARS)
                .chain(VARIANTS)
                .chain(FIELDS)
                .copied()
                .collect();
            s.replace_range(a..b, *rng.pick(&pool));
            (s, "edit.token")
        }
        3 => {
            let mut lines: Vec<&str> = s.split('\n').collect();
            if lines.len() > 1 {
                let i = rng.below(lines.len());
                lines.remove(i);
            }
            (lines.join("\n"), "edit.line_delete")
        }
        4 => {
            let mut lines: Vec<&str> = s.split('\n').collect();
            let i = rng.below(lines.len());
            let l = lines[i];
            lines.insert(i, l);
            (lines.join("\n"), "edit.line_dup")
        }
        5 => {
            let mut lines: Vec<&str> = s.split('\n').collect();
            if lines.len() > 1 {
                let i = rng.below(lines.len());
                let j = rng.below(lines.len());
                lines.swap(i, j);
            }
            (lines.join("\n"), "edit.line_swap")
        }
        6 => {
            let i = char_floor(&s, rng.below(s.len() + 1));
            s.truncate(i);
            (s, "edit.truncate")
        }
        7 => {
            // duplicate a top-level item (a blank-line separated block)
            let blocks: Vec<&str> = s.split("\n\n").collect();
            let b = rng.pick(&blocks).to_string();
            (format!("{s}\n{b}\n"), "edit.item_dup")
        }
        _ => {
            // rename every occurrence of one identifier (keeps the program coherent)
            let idents = ident_spans(&s);
            if idents.is_empty() {
                return (s, "edit.none");
            }
            let (a, b) = *rng.pick(&idents);
            let old = s[a..b].to_string();
            let new = format!("{old}2");
            let mut out = String::new();
            let mut last = 0;
            for (a, b) in idents {
                if s[a..b] == old {
                    out += &s[last..a];
                    out += &new;
                    last = b;
                }
            }
            out += &s[last..];
            (out, "edit.rename_all")
        }
    }
}

pub fn ident_spans(s: &str) -> Vec<(usize, usize)> {
    let mut v = Vec::new();
    let b = s.as_bytes();
    let mut i = 0;
    while i < b.len() {
        if b[i].is_ascii_alphabetic() || b[i] == b'_' {
            let st = i;
            while i < b.len() && (b[i].is_ascii_alphanumeric() || b[i] == b'_') {
                i += 1;
            }
            v.push((st, i));
        } else {
            i += 1;
        }
    }
    v
}

/// An offset worth querying: mostly inside / at the edge of an identifier.
pub fn interesting_offset(rng: &mut Rng, s: &str) -> u32 {
    let ids = ident_spans(s);
    if !ids.is_empty() && rng.chance(4, 5) {
        let (a, b) = *rng.pick(&ids);
        return match rng.below(3) {
            0 => a,
            1 => b,
            _ => a + rng.below(b - a),
        } as u32;
    }
    char_floor(s, rng.below(s.len() + 1)) as u32
}

// ---------------------------------------------------------------------------------------------
// Workspace model

#[derive(Clone, Debug, PartialEq)]
pub struct PkgSpec {
    pub name: String,
    pub toml: u32,
    pub is_local: bool,
    pub deps: Vec<usize>,
}

#[derive(Clone, Debug, PartialEq)]
pub struct RootSpec {
    pub path: String,
    pub files: Vec<u32>,
}

/// The workspace as plain data: what a newly started analysis would be given.
#[derive(Clone, Debug, Default, PartialEq)]
pub struct Workspace {
    /// file id -> (path, text). A file keeps its id for the whole history.
    pub files: BTreeMap<u32, (String, String)>,
    pub roots: Vec<RootSpec>,
    pub pkgs: Vec<PkgSpec>,
}

impl Workspace {
    pub fn module_files(&self) -> Vec<u32> {
        self.roots
            .iter()
            .flat_map(|r| r.files.iter().copied())
            .filter(|f| self.files.get(f).map_or(false, |(p, _)| p.ends_with(".gleam")))
            .collect()
    }

    pub fn to_json(&self) -> Value {
        json!({
            "files": self.files.iter().map(|(id, (p, t))| json!([id, p, t])).collect::<Vec<_>>(),
            "roots": self.roots.iter().map(|r| json!({"path": r.path, "files": r.files})).collect::<Vec<_>>(),
            "pkgs": self.pkgs.iter().map(|p| json!({"name": p.name, "toml": p.toml, "is_local": p.is_local, "deps": p.deps})).collect::<Vec<_>>(),
        })
    }

    pub fn from_json(v: &Value) -> Workspace {
        let mut w = Workspace::default();
        for f in v["files"].as_array().into_iter().flatten() {
            w.files.insert(
                f[0].as_u64().unwrap() as u32,
                (
                    f[1].as_str().unwrap().to_string(),
                    f[2].as_str().unwrap().to_string(),
                ),
            );
        }
        for r in v["roots"].as_array().into_iter().flatten() {
            w.roots.push(RootSpec {
                path: r["path"].as_str().unwrap().to_string(),
                files: r["files"]
                    .as_array()
                    .unwrap()
                    .iter()
                    .map(|x| x.as_u64().unwrap() as u32)
                    .collect(),
            });
        }
        for p in v["pkgs"].as_array().into_iter().flatten() {
            w.pkgs.push(PkgSpec {
                name: p["name"].as_str().unwrap().to_string(),
                toml: p["toml"].as_u64().unwrap() as u32,
                is_local: p["is_local"].as_bool().unwrap(),
                deps: p["deps"]
                    .as_array()
                    .unwrap()
                    .iter()
                    .map(|x| x.as_u64().unwrap() as usize)
                    .collect(),
            });
        }
        w
    }

    /// The `Change` that takes an empty database to this workspace in one go.
    pub fn full_change(&self) -> ide::Change {
        self.change_from(&Workspace::default(), true)
    }

    fn build_roots(&self) -> Vec<ide::SourceRoot> {
        self.roots
            .iter()
            .map(|r| {
                let mut set = ide::FileSet::default();
                for f in &r.files {
                    set.insert(ide::FileId(*f), ide::VfsPath::new(&self.files[f].0));
                }
                ide::SourceRoot::new(set, r.path.clone().into())
            })
            .collect()
    }

    fn build_graph(&self) -> ide::PackageGraph {
        let mut g = ide::PackageGraph::default();
        let ids: Vec<_> = self
            .pkgs
            .iter()
            .map(|p| g.add_package(p.name.as_str().into(), ide::FileId(p.toml), p.is_local))
            .collect();
        for (i, p) in self.pkgs.iter().enumerate() {
            for d in &p.deps {
                g.add_dep(ids[i], ide::Dependency { package: ids[*d] });
            }
        }
        g
    }

    /// The incremental `Change` from `old` to `self` (only what differs, unless `force_all`).
    pub fn change_from(&self, old: &Workspace, force_all: bool) -> ide::Change {
        let mut c = ide::Change::default();
        if force_all || self.pkgs != old.pkgs {
            c.set_package_graph(self.build_graph());
        }
        if force_all || self.roots != old.roots || self.paths() != old.paths() {
            c.set_roots(self.build_roots());
            c.set_structural_change();
        }
        for (id, (_, text)) in &self.files {
            if force_all || old.files.get(id).map(|(_, t)| t) != Some(text) {
                c.change_file(ide::FileId(*id), text.as_str().into());
            }
        }
        c
    }

    /// Like `change_from`, but the files of `via` are listed first with their intermediate texts
    /// and then once more with their final text: one `Change` with several entries per file.
    pub fn change_from_via(&self, old: &Workspace, force_all: bool, via: &[(u32, String)]) -> ide::Change {
        if via.is_empty() {
            return self.change_from(old, force_all);
        }
        let mut c = ide::Change::default();
        if force_all || self.pkgs != old.pkgs {
            c.set_package_graph(self.build_graph());
        }
        if force_all || self.roots != old.roots || self.paths() != old.paths() {
            c.set_roots(self.build_roots());
            c.set_structural_change();
        }
        for (id, text) in via {
            if self.files.contains_key(id) {
                c.change_file(ide::FileId(*id), text.as_str().into());
            }
        }
        for (id, (_, text)) in &self.files {
            if force_all || old.files.get(id).map(|(_, t)| t) != Some(text) || via.iter().any(|(v, _)| v == id) {
                c.change_file(ide::FileId(*id), text.as_str().into());
            }
        }
        c
    }

    fn paths(&self) -> Vec<(u32, &str)> {
        self.files.iter().map(|(i, (p, _))| (*i, p.as_str())).collect()
    }
}

/// Generate an initial workspace: 1–3 packages (roots), 1–4 module files overall.
pub fn gen_workspace(rng: &mut Rng) -> Workspace {
    let mut w = Workspace::default();
    let npk = *rng.pick(&[1, 1, 2, 2, 3]);
    let nmods = rng.range(1, 4);
    let mut next_id = 0u32;
    let mut shapes: Vec<Vec<(String, ModuleShape)>> = vec![Vec::new(); npk];
    for p in 0..npk {
        let root = format!("/ws/p{p}");
        let toml = next_id;
        next_id += 1;
        w.files.insert(
            toml,
            (format!("{root}/gleam.toml"), format!("name = \"p{p}\"\n")),
        );
        w.roots.push(RootSpec {
            path: root,
            files: vec![toml],
        });
        w.pkgs.push(PkgSpec {
            name: format!("p{p}"),
            toml,
            is_local: p == 0 || rng.chance(1, 2),
            deps: Vec::new(),
        });
    }
    // dependency edges: package i may depend on j > i (and sometimes a back edge)
    for i in 0..npk {
        for j in 0..npk {
            if i != j && ((j > i && rng.chance(2, 3)) || (j < i && rng.chance(1, 8))) {
                w.pkgs[i].deps.push(j);
            }
        }
    }
    // modules, generated from the last package backwards so that importers see shapes
    let mut placement: Vec<usize> = (0..nmods).map(|_| rng.below(npk)).collect();
    placement.sort_unstable_by(|a, b| b.cmp(a));
    for p in placement {
        let taken: Vec<&str> = shapes[p].iter().map(|(n, _)| n.as_str()).collect();
        let name = MODS
            .iter()
            .find(|m| !taken.contains(*m) && rng.chance(1, 2))
            .or_else(|| MODS.iter().find(|m| !taken.contains(*m)))
            .unwrap()
            .to_string();
        // visible: same package + direct deps (+ sometimes everything, to exercise non-deps)
        let mut others: Vec<(String, ModuleShape)> = shapes[p].clone();
        for d in 0..npk {
            if w.pkgs[p].deps.contains(&d) || rng.chance(1, 6) {
                others.extend(shapes[d].iter().cloned());
            }
        }
        let (mut text, mut shape) = gen_module(rng, &others);
        // size knob: some modules are several times larger (longer queries, more salsa events
        // per query, more places for a change to arrive)
        for _ in 1..*rng.pick(&[1usize, 1, 1, 2, 3]) {
            let (t2, s2) = gen_module(rng, &[]);
            text += &t2;
            shape.fns.extend(s2.fns);
            shape.types.extend(s2.types);
        }
        let dir = if rng.chance(1, 5) { "test" } else { "src" };
        let id = next_id;
        next_id += 1;
        w.files
            .insert(id, (format!("/ws/p{p}/{dir}/{name}.gleam"), text));
        w.roots[p].files.push(id);
        shapes[p].push((name, shape));
    }
    w
}

#[derive(Clone, Debug)]
pub struct Step {
    pub next: Workspace,
    pub kind: &'static str,
}

/// One workspace change of the kinds listed in DESIGN §5/C11.
pub fn gen_change(rng: &mut Rng, w: &Workspace) -> Step {
    let mut n = w.clone();
    let mods = w.module_files();
    let kind: &'static str = match rng.below(17) {
        16 if !mods.is_empty() => {
            // a second file claiming an existing module name in the same package
            // (src/a.gleam next to test/a.gleam): legal for the server, must resolve the same
            // way every time
            let f = *rng.pick(&mods);
            let path = w.files[&f].0.clone();
            let twin = if path.contains("/src/") {
                path.replacen("/src/", "/test/", 1)
            } else {
                path.replacen("/test/", "/src/", 1)
            };
            if twin != path && !w.files.values().any(|(p, _)| *p == twin) {
                let id = w.files.keys().max().map_or(0, |m| m + 1);
                let (text, _) = gen_module(rng, &[]);
                if let Some(r) = n.roots.iter_mut().find(|r| r.files.contains(&f)) {
                    r.files.push(id);
                    n.files.insert(id, (twin, text));
                }
                "file.add_duplicate_module"
            } else {
                "none"
            }
        }
        0..=7 if !mods.is_empty() => {
            let f = *rng.pick(&mods);
            let (text, kind) = mutate(rng, &w.files[&f].1);
            n.files.get_mut(&f).unwrap().1 = text;
            kind
        }
        8 if !mods.is_empty() => {
            let f = *rng.pick(&mods);
            let (text, _) = gen_module(rng, &[]);
            n.files.get_mut(&f).unwrap().1 = text;
            "file.replace"
        }
        9 if !mods.is_empty() => {
            let f = *rng.pick(&mods);
            n.files.get_mut(&f).unwrap().1 = String::new();
            "file.empty"
        }
        10 => {
            // add a file with a new id
            let id = w.files.keys().max().map_or(0, |m| m + 1);
            let r = rng.below(n.roots.len());
            let name = rng.pick(MODS);
            let path = format!("{}/src/{name}{}.gleam", n.roots[r].path, id);
            let (text, _) = gen_module(rng, &[]);
            n.files.insert(id, (path, text));
            n.roots[r].files.push(id);
            "file.add"
        }
        11 if mods.len() > 1 => {
            // drop a file from the roots (content stays)
            let f = *rng.pick(&mods);
            for r in &mut n.roots {
                r.files.retain(|x| *x != f);
            }
            n.files.remove(&f);
            "file.remove"
        }
        12 if n.roots.len() > 1 => {
            let i = rng.below(n.roots.len());
            let j = rng.below(n.roots.len());
            n.roots.swap(i, j);
            "roots.reorder"
        }
        13 if n.pkgs.len() > 1 => {
            let i = rng.below(n.pkgs.len());
            let j = rng.below(n.pkgs.len());
            if i != j {
                if let Some(k) = n.pkgs[i].deps.iter().position(|d| *d == j) {
                    n.pkgs[i].deps.remove(k);
                    "graph.remove_dep"
                } else {
                    n.pkgs[i].deps.push(j);
                    "graph.add_dep"
                }
            } else {
                "none"
            }
        }
        14 => {
            let i = rng.below(n.pkgs.len());
            n.pkgs[i].is_local = !n.pkgs[i].is_local;
            "graph.flip_local"
        }
        15 if n.roots.len() > 1 => {
            // move a module to another root (regroup)
            if let Some(&f) = mods.first() {
                let to = rng.below(n.roots.len());
                for r in &mut n.roots {
                    r.files.retain(|x| *x != f);
                }
                let name = n.files[&f].0.rsplit('/').next().unwrap().to_string();
                let mut path = format!("{}/src/{name}", n.roots[to].path);
                if n.files.iter().any(|(id, (p, _))| *id != f && *p == path) {
                    // never two files with one path (the server keys files by path)
                    path = format!("{}/src/m{f}_{name}", n.roots[to].path);
                }
                n.files.get_mut(&f).unwrap().0 = path;
                n.roots[to].files.push(f);
                "roots.regroup"
            } else {
                "none"
            }
        }
        _ => "none",
    };
    Step { next: n, kind }
}
