//! The eleven query kinds of `ide::Analysis`, their execution and the normalisation of answers.
use crate::gen::{interesting_offset, Workspace};
use crate::rng::Rng;
use ide::{Analysis, FileId, FilePos};
use serde_json::{json, Value};
use std::panic::{catch_unwind, AssertUnwindSafe};

#[derive(Clone, Debug, PartialEq, Eq, PartialOrd, Ord, Hash)]
pub enum QKind {
    Hover,
    Completions,
    Diagnostics,
    Highlight,
    GotoDef,
    References,
    PrepareRename,
    Rename,
    SyntaxTree,
    SyntaxHighlight,
    SignatureHelp,
}

pub const ALL_KINDS: &[QKind] = &[
    QKind::Hover,
    QKind::Completions,
    QKind::Diagnostics,
    QKind::Highlight,
    QKind::GotoDef,
    QKind::References,
    QKind::PrepareRename,
    QKind::Rename,
    QKind::SyntaxTree,
    QKind::SyntaxHighlight,
    QKind::SignatureHelp,
];

#[derive(Clone, Debug, PartialEq, Eq, PartialOrd, Ord, Hash)]
pub struct Query {
    pub kind: QKind,
    pub file: u32,
    pub pos: u32,
}

impl Query {
    pub fn to_json(&self) -> Value {
        json!([format!("{:?}", self.kind), self.file, self.pos])
    }
    pub fn from_json(v: &Value) -> Query {
        let k = v[0].as_str().unwrap();
        Query {
            kind: ALL_KINDS
                .iter()
                .find(|x| format!("{x:?}") == k)
                .cloned()
                .unwrap(),
            file: v[1].as_u64().unwrap() as u32,
            pos: v[2].as_u64().unwrap() as u32,
        }
    }
}

pub fn gen_query(rng: &mut Rng, w: &Workspace) -> Option<Query> {
    let mods = w.module_files();
    if mods.is_empty() {
        return None;
    }
    let file = *rng.pick(&mods);
    let text = &w.files[&file].1;
    Some(Query {
        kind: rng.pick(ALL_KINDS).clone(),
        file,
        pos: interesting_offset(rng, text),
    })
}

#[derive(Clone, Debug, PartialEq, Eq)]
pub enum QResult {
    /// `canon`: order-insensitive form used for equality; `exact`: as returned.
    Ans { canon: String, exact: String },
    Cancelled,
    Panic(String),
}

impl QResult {
    pub fn short(&self) -> String {
        match self {
            QResult::Ans { exact, .. } => {
                let mut s: String = exact.chars().take(160).collect();
                if exact.len() > s.len() {
                    s.push('…');
                }
                format!("ans:{s}")
            }
            QResult::Cancelled => "cancelled".into(),
            QResult::Panic(m) => format!("panic:{}", m.lines().next().unwrap_or("")),
        }
    }
    pub fn same_answer(&self, other: &QResult) -> bool {
        match (self, other) {
            (QResult::Ans { canon: a, .. }, QResult::Ans { canon: b, .. }) => a == b,
            (QResult::Panic(_), QResult::Panic(_)) => true,
            (QResult::Cancelled, QResult::Cancelled) => true,
            _ => false,
        }
    }
    pub fn order_differs(&self, other: &QResult) -> bool {
        match (self, other) {
            (
                QResult::Ans { canon: a, exact: ea },
                QResult::Ans { canon: b, exact: eb },
            ) => a == b && ea != eb,
            _ => false,
        }
    }
}

fn sorted_dbg<T: std::fmt::Debug>(xs: &[T]) -> (String, String) {
    let exact = format!("{xs:?}");
    let mut v: Vec<String> = xs.iter().map(|x| format!("{x:?}")).collect();
    v.sort();
    (format!("{v:?}"), exact)
}

fn both(s: String) -> (String, String) {
    (s.clone(), s)
}

fn opt_sorted<T: std::fmt::Debug>(x: &Option<Vec<T>>) -> (String, String) {
    match x {
        None => both("None".into()),
        Some(v) => {
            let (c, e) = sorted_dbg(v);
            (format!("Some({c})"), format!("Some({e})"))
        }
    }
}

pub fn panic_msg(p: Box<dyn std::any::Any + Send>) -> String {
    if let Some(s) = p.downcast_ref::<String>() {
        s.clone()
    } else if let Some(s) = p.downcast_ref::<&str>() {
        s.to_string()
    } else {
        "non-string panic".into()
    }
}

pub fn run_query(a: &Analysis, q: &Query) -> QResult {
    let fpos = FilePos::new(FileId(q.file), q.pos.into());
    let file = FileId(q.file);
    let r = catch_unwind(AssertUnwindSafe(|| -> Result<(String, String), ide::Cancelled> {
        Ok(match q.kind {
            QKind::Hover => both(format!("{:?}", a.hover(fpos)?)),
            QKind::Completions => opt_sorted(&a.completions(fpos, None)?),
            QKind::Diagnostics => sorted_dbg(&a.diagnostics(file)?),
            QKind::Highlight => sorted_dbg(&a.highlight_related(fpos)?),
            QKind::GotoDef => match a.goto_definition(fpos)? {
                None => both("None".into()),
                Some(ide::GotoDefinitionResult::Targets(t)) => sorted_dbg(&t),
                Some(other) => both(format!("{other:?}")),
            },
            QKind::References => opt_sorted(&a.references(fpos)?),
            QKind::PrepareRename => both(format!("{:?}", a.prepare_rename(fpos)?)),
            QKind::Rename => match a.rename(fpos, "renamed_x")? {
                Err(e) => both(format!("Err({e:?})")),
                Ok(ws) => {
                    let mut files: Vec<_> = ws.content_edits.iter().collect();
                    files.sort_by_key(|(f, _)| **f);
                    let exact = format!("{files:?}");
                    let canon: Vec<_> = files
                        .iter()
                        .map(|(f, e)| (*f, sorted_dbg(e).0))
                        .collect();
                    (format!("{canon:?}"), exact)
                }
            },
            QKind::SyntaxTree => both(a.syntax_tree(file)?),
            QKind::SyntaxHighlight => sorted_dbg(&a.syntax_highlight(file, None)?),
            QKind::SignatureHelp => both(format!("{:?}", a.signature_help(fpos)?)),
        })
    }));
    match r {
        Ok(Ok((canon, exact))) => QResult::Ans { canon, exact },
        Ok(Err(_)) => QResult::Cancelled,
        Err(p) => QResult::Panic(panic_msg(p)),
    }
}
