//! The libc boundary as a seam for the disk (DESIGN §2.8): the binary defines its own `open64`,
//! `statx`, `opendir` and `readdir64`; each reports a yield point (`disk:open`, `disk:stat`,
//! `disk:opendir`, `disk:readdir`) and then calls the real function. Rust's std reaches the file
//! system through exactly these symbols on Linux/glibc (`open64` and the directory functions by
//! static reference, `statx` through a weak-symbol lookup - hence the exported symbol, see
//! build.rs), so every access of the server's main loop to the disk becomes a place where the
//! controller may change the disk *inside* an operation of the server, wherever that operation
//! is written and however it is rewritten. Threads without a simulation identity (the controller,
//! the drivers) pass straight through, and so does everybody while `ENABLED` is off.
use std::cell::Cell;
use std::sync::atomic::{AtomicBool, AtomicUsize, Ordering};

pub static ENABLED: AtomicBool = AtomicBool::new(false);

thread_local! {
    static INSIDE: Cell<bool> = const { Cell::new(false) };
}

fn point(name: &'static str) {
    if !ENABLED.load(Ordering::Relaxed) {
        return;
    }
    let entered = INSIDE.try_with(|c| !c.replace(true)).unwrap_or(false);
    if !entered {
        return;
    }
    ide::verif::named(name);
    let _ = INSIDE.try_with(|c| c.set(false));
}

unsafe fn real(cache: &AtomicUsize, name: &'static [u8]) -> usize {
    let p = cache.load(Ordering::Relaxed);
    if p != 0 {
        return p;
    }
    let p = libc::dlsym(libc::RTLD_NEXT, name.as_ptr() as *const libc::c_char) as usize;
    if p == 0 {
        libc::abort();
    }
    cache.store(p, Ordering::Relaxed);
    p
}

#[no_mangle]
pub unsafe extern "C" fn open64(path: *const libc::c_char, flags: libc::c_int, mode: libc::mode_t) -> libc::c_int {
    static REAL: AtomicUsize = AtomicUsize::new(0);
    point("disk:open");
    let f: unsafe extern "C" fn(*const libc::c_char, libc::c_int, libc::mode_t) -> libc::c_int = std::mem::transmute(real(&REAL, b"open64\0"));
    f(path, flags, mode)
}

#[no_mangle]
pub unsafe extern "C" fn statx(dirfd: libc::c_int, path: *const libc::c_char, flags: libc::c_int, mask: libc::c_uint, buf: *mut libc::statx) -> libc::c_int {
    static REAL: AtomicUsize = AtomicUsize::new(0);
    point("disk:stat");
    let f: unsafe extern "C" fn(libc::c_int, *const libc::c_char, libc::c_int, libc::c_uint, *mut libc::statx) -> libc::c_int =
        std::mem::transmute(real(&REAL, b"statx\0"));
    f(dirfd, path, flags, mask, buf)
}

#[no_mangle]
pub unsafe extern "C" fn opendir(path: *const libc::c_char) -> *mut libc::DIR {
    static REAL: AtomicUsize = AtomicUsize::new(0);
    point("disk:opendir");
    let f: unsafe extern "C" fn(*const libc::c_char) -> *mut libc::DIR = std::mem::transmute(real(&REAL, b"opendir\0"));
    f(path)
}

#[no_mangle]
pub unsafe extern "C" fn readdir64(dirp: *mut libc::DIR) -> *mut libc::dirent64 {
    static REAL: AtomicUsize = AtomicUsize::new(0);
    point("disk:readdir");
    let f: unsafe extern "C" fn(*mut libc::DIR) -> *mut libc::dirent64 = std::mem::transmute(real(&REAL, b"readdir64\0"));
    f(dirp)
}
