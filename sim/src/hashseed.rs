//! Deterministic `RandomState` keys (DESIGN §2.4): the binary exports its own `getrandom`, which
//! std looks up as a weak symbol. Bytes are a function of (process-wide run hash seed, the
//! calling thread's hash domain, how often that thread asked).
use crate::rng::{mix, splitmix};
use std::cell::Cell;
use std::sync::atomic::{AtomicU64, Ordering};

static RUN_HASH_SEED: AtomicU64 = AtomicU64::new(0x5EED);
pub static CALLS: AtomicU64 = AtomicU64::new(0);

thread_local! {
    static DOMAIN: Cell<Option<u64>> = const { Cell::new(None) };
    static COUNTER: Cell<u64> = const { Cell::new(0) };
}

pub fn set_run_hash_seed(s: u64) {
    RUN_HASH_SEED.store(s, Ordering::SeqCst);
}

/// Give the calling (fresh) thread its own reproducible hash-key stream.
pub fn set_domain(d: u64) {
    DOMAIN.with(|c| c.set(Some(d)));
    COUNTER.with(|c| c.set(0));
}

pub fn fill(buf: &mut [u8]) {
    CALLS.fetch_add(1, Ordering::Relaxed);
    // Threads without a domain (pool threads inside tokio's start-up code, helper threads) all
    // get the same stream, so their racy start order cannot leak into the keys.
    let domain = DOMAIN.try_with(|c| c.get()).ok().flatten();
    let n = match domain {
        Some(_) => COUNTER
            .try_with(|c| {
                let v = c.get();
                c.set(v + 1);
                v
            })
            .unwrap_or(0),
        None => 0,
    };
    let mut x = mix(
        mix(RUN_HASH_SEED.load(Ordering::SeqCst), domain.unwrap_or(0xD0_0D)),
        n,
    );
    for chunk in buf.chunks_mut(8) {
        let v = splitmix(&mut x).to_le_bytes();
        chunk.copy_from_slice(&v[..chunk.len()]);
    }
}
