//! xoshiro256** seeded through splitmix64. The only source of randomness in the simulator.

#[derive(Clone, Debug)]
pub struct Rng {
    s: [u64; 4],
}

pub fn splitmix(x: &mut u64) -> u64 {
    *x = x.wrapping_add(0x9E37_79B9_7F4A_7C15);
    let mut z = *x;
    z = (z ^ (z >> 30)).wrapping_mul(0xBF58_476D_1CE4_E5B9);
    z = (z ^ (z >> 27)).wrapping_mul(0x94D0_49BB_1331_11EB);
    z ^ (z >> 31)
}

/// Mix two integers into a new seed (run seed from master seed and run index, sub-streams, ...).
pub fn mix(a: u64, b: u64) -> u64 {
    let mut x = a ^ b.wrapping_mul(0xD6E8_FEB8_6659_FD93).rotate_left(29);
    let r = splitmix(&mut x);
    r ^ splitmix(&mut x).rotate_left(17)
}

impl Rng {
    pub fn new(seed: u64) -> Self {
        let mut x = seed;
        let s = [
            splitmix(&mut x),
            splitmix(&mut x),
            splitmix(&mut x),
            splitmix(&mut x),
        ];
        Rng { s }
    }

    pub fn next(&mut self) -> u64 {
        let r = self.s[1].wrapping_mul(5).rotate_left(7).wrapping_mul(9);
        let t = self.s[1] << 17;
        self.s[2] ^= self.s[0];
        self.s[3] ^= self.s[1];
        self.s[1] ^= self.s[2];
        self.s[0] ^= self.s[3];
        self.s[2] ^= t;
        self.s[3] = self.s[3].rotate_left(45);
        r
    }

    /// Uniform in `0..n` (`n > 0`).
    pub fn below(&mut self, n: usize) -> usize {
        debug_assert!(n > 0);
        ((self.next() >> 11) % n as u64) as usize
    }

    /// Uniform in `lo..=hi`.
    pub fn range(&mut self, lo: usize, hi: usize) -> usize {
        lo + self.below(hi - lo + 1)
    }

    pub fn chance(&mut self, num: u32, den: u32) -> bool {
        (self.below(den as usize) as u32) < num
    }

    pub fn pick<'a, T>(&mut self, xs: &'a [T]) -> &'a T {
        &xs[self.below(xs.len())]
    }

    pub fn shuffle<T>(&mut self, xs: &mut [T]) {
        for i in (1..xs.len()).rev() {
            let j = self.below(i + 1);
            xs.swap(i, j);
        }
    }

    pub fn fork(&mut self, tag: u64) -> Rng {
        Rng::new(mix(self.next(), tag))
    }
}

/// 64-bit FNV-1a, used for event-log and decision-trace digests.
#[derive(Clone, Copy, Debug)]
pub struct Fnv(pub u64);

impl Default for Fnv {
    fn default() -> Self {
        Fnv(0xcbf2_9ce4_8422_2325)
    }
}

impl Fnv {
    pub fn write(&mut self, bytes: &[u8]) {
        for &b in bytes {
            self.0 ^= b as u64;
            self.0 = self.0.wrapping_mul(0x0000_0100_0000_01B3);
        }
    }
    pub fn write_str(&mut self, s: &str) {
        self.write(s.as_bytes());
        self.write(&[0xff]);
    }
    pub fn write_u64(&mut self, v: u64) {
        self.write(&v.to_le_bytes());
    }
}
