//! Oracles shared by the lsp-sim properties.
use crate::ide_sim::Violation;
use crate::lsp::{Ev, History, Op, Session};
use std::collections::BTreeMap;

/// Tags of the operations of a session, for violation signatures.
pub fn all_tags(s: &Session) -> Vec<String> {
    let mut v: Vec<String> = s.ops.iter().flat_map(|p| p.tags.iter().cloned()).collect();
    v.sort();
    v.dedup();
    v
}

/// The server must stay alive and the run must reach final quiescence.
pub fn liveness_violation(s: &Session, h: &History) -> Option<Violation> {
    if h.degraded_free_run {
        return None;
    }
    if let Some(d) = &h.deadlock {
        // requests handed over completely and not answered
        let answered = h.responses();
        let mut in_flight = 0usize;
        for e in &h.events {
            if let Ev::Sent { op, .. } = e {
                if let Op::Request { id, .. } = &s.ops[*op].op {
                    if !answered.contains_key(id) {
                        in_flight += 1;
                    }
                }
            }
        }
        // (the request that waits for a permit has been read already, so the input may be empty)
        if h.main_final == "Parked@idle" && in_flight >= s.concurrency {
            return Some(Violation {
                oracle: "liveness.main_loop_keeps_reading".into(),
                kinds: vec!["requests_in_flight_reach_concurrency_limit".into()],
                detail: format!(
                    "{in_flight} requests are in flight with a concurrency limit of {}; the main loop sits idle, reads no further input ({} bytes unread) and answers nothing any more ({d})",
                    s.concurrency, h.unread_input
                ),
            });
        }
        return Some(Violation {
            oracle: "liveness.no_deadlock".into(),
            kinds: vec!["deadlock".into(), format!("main.{}", h.main_final)],
            detail: format!("no thread can move and the server does not drain even with every hook passing through: {d}"),
        });
    }
    if let Some((step, reason)) = &h.server_exit {
        // Which operation was the last one handed over?
        let last = h
            .events
            .iter()
            .rev()
            .find_map(|e| match e {
                Ev::Sent { op, .. } => Some(*op),
                _ => None,
            });
        let mut kinds: Vec<String> = match last {
            Some(i) => {
                let mut t = s.ops[i].tags.clone();
                if t.is_empty() {
                    t.push(op_kind(&s.ops[i].op).to_string());
                }
                t
            }
            None => vec!["startup".into()],
        };
        kinds.sort();
        let what = if reason.starts_with("panicked") { "server.main_loop_panicked" } else { "server.main_loop_ended" };
        kinds.insert(0, what.into());
        return Some(Violation {
            oracle: "server_alive".into(),
            kinds,
            detail: format!(
                "the main loop ended at step {step} ({}) after operation {:?}: {:?}",
                reason.lines().next().unwrap_or(""),
                last,
                last.map(|i| s.ops[i].op.to_json().to_string().chars().take(300).collect::<String>())
            ),
        });
    }
    None
}

pub fn op_kind(op: &Op) -> &'static str {
    match op {
        Op::Open { .. } => "didOpen",
        Op::Change { .. } => "didChange",
        Op::Close { .. } => "didClose",
        Op::Save { .. } => "didSave",
        Op::Request { .. } => "request",
        Op::Cancel { .. } => "cancelRequest",
        Op::Watched { .. } => "didChangeWatchedFiles",
        Op::Raw { .. } => "raw",
        Op::Disk(_) => "disk",
        Op::Barrier => "barrier",
        Op::ProbeText { .. } => "probe",
    }
}

/// Every request id that was sent has exactly one response.
pub fn exactly_once(s: &Session, h: &History) -> Option<Violation> {
    let resp = h.responses();
    let sent: BTreeMap<usize, ()> = h
        .events
        .iter()
        .filter_map(|e| match e {
            Ev::Sent { op, .. } => Some((*op, ())),
            _ => None,
        })
        .collect();
    for (i, p) in s.ops.iter().enumerate() {
        let (id, method) = match &p.op {
            Op::Request { id, method, .. } => (*id, method.clone()),
            Op::Raw { msg } => match (msg.get("id").and_then(|i| i.as_i64()), msg.get("method").and_then(|m| m.as_str())) {
                (Some(id), Some(m)) => (id, m.to_string()),
                _ => continue,
            },
            _ => continue,
        };
        if !sent.contains_key(&i) {
            continue;
        }
        let n = resp.get(&id).map_or(0, |v| v.len());
        if n != 1 {
            let mut kinds = p.tags.clone();
            kinds.insert(0, format!("req.{method}"));
            kinds.insert(0, if n == 0 { "response.missing".into() } else { "response.duplicated".into() });
            return Some(Violation {
                oracle: "exactly_one_response".into(),
                kinds,
                detail: format!("request id {id} ({method}) has {n} responses at final quiescence"),
            });
        }
    }
    None
}
