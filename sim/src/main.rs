//! glas-sim: deterministic simulation of the glas analysis database (ide-sim) and language
//! server (lsp-sim). See /verif/DESIGN.md.
mod core;
mod gen;
mod hashseed;
mod ide_sim;
mod query;
mod rng;

use serde_json::{json, Value};
use std::collections::{BTreeMap, BTreeSet};
use std::time::Instant;

/// std finds this through a weak symbol lookup (see build.rs); every `RandomState` key in the
/// process therefore comes from `hashseed::fill`.
#[no_mangle]
pub unsafe extern "C" fn getrandom(buf: *mut libc::c_void, len: libc::size_t, _flags: libc::c_uint) -> libc::ssize_t {
    let slice = std::slice::from_raw_parts_mut(buf as *mut u8, len);
    hashseed::fill(slice);
    len as libc::ssize_t
}

fn arg(args: &[String], name: &str) -> Option<String> {
    args.iter()
        .position(|a| a == name)
        .and_then(|i| args.get(i + 1).cloned())
}

fn flag(args: &[String], name: &str) -> bool {
    args.iter().any(|a| a == name)
}

fn install_quiet_panic_hook() {
    let verbose = std::env::var("VERIF_PANIC_VERBOSE").is_ok();
    std::panic::set_hook(Box::new(move |info| {
        if verbose {
            eprintln!("[panic] {info}");
        }
    }));
}

fn add_map(into: &mut BTreeMap<String, u64>, from: &BTreeMap<String, u64>) {
    for (k, v) in from {
        *into.entry(k.clone()).or_insert(0) += v;
    }
}

#[derive(Default)]
struct Agg {
    runs: u64,
    steps: u64,
    contended_runs: u64,
    nontrivial_hashes: BTreeSet<u64>,
    faults: BTreeMap<String, u64>,
    probes: BTreeMap<String, u64>,
    change_kinds: BTreeMap<String, u64>,
    counters: BTreeMap<String, u64>,
    max_steps_to_cancel: u32,
    max_apply_steps: u64,
    violations: Vec<Value>,
    harness_errors: Vec<String>,
    samples: Vec<Value>,
    log_hashes: Vec<(u64, u64)>,
}

fn ide_worker(args: &[String]) -> i32 {
    let prop = arg(args, "--prop").expect("--prop");
    let seed: u64 = arg(args, "--seed").and_then(|s| s.parse().ok()).unwrap_or(1);
    let from: u64 = arg(args, "--from").and_then(|s| s.parse().ok()).unwrap_or(0);
    let to: u64 = arg(args, "--to").and_then(|s| s.parse().ok()).unwrap_or(100);
    let stride: u64 = arg(args, "--stride").and_then(|s| s.parse().ok()).unwrap_or(1);
    let thorough = arg(args, "--tier").as_deref() == Some("thorough");
    let out = arg(args, "--out").expect("--out");
    let worker = arg(args, "--worker").unwrap_or_else(|| "0".into());
    let budget_s: f64 = arg(args, "--time-budget").and_then(|s| s.parse().ok()).unwrap_or(1e9);
    let want_hashes = flag(args, "--log-hashes");
    let t0 = Instant::now();
    let mut agg = Agg::default();
    let mut run = from;
    let mut poisoned = false;
    while run < to {
        if t0.elapsed().as_secs_f64() > budget_s {
            break;
        }
        let plan = ide_sim::gen_plan(&prop, seed, run, thorough);
        let o = ide_sim::run_plan(&plan, false);
        agg.runs += 1;
        agg.steps += o.stats.steps;
        if o.stats.contended > 0 {
            agg.contended_runs += 1;
        }
        if o.stats.nontrivial {
            agg.nontrivial_hashes.insert(o.stats.trace_hash);
        }
        if want_hashes {
            agg.log_hashes.push((run, o.stats.log_hash));
        }
        add_map(&mut agg.faults, &o.stats.faults);
        add_map(&mut agg.probes, &o.stats.probes);
        add_map(&mut agg.change_kinds, &o.stats.change_kinds);
        for (k, v) in [
            ("reader_results", o.stats.reader_results),
            ("cancelled", o.stats.cancelled),
            ("answers_checked", o.stats.answers_checked),
            ("compares", o.stats.compares),
            ("compared_queries", o.stats.compared_queries),
            ("excluded_sequential_panic", o.stats.excluded_sequential_panic),
            ("order_only_diffs", o.stats.order_only_diffs),
            ("cancelled_by_peer_panic", o.stats.cancelled_by_peer_panic),
            ("compare_skipped_peer_panic", o.stats.compare_skipped),
            ("oracle_unstable", o.stats.fresh_ab_disagree),
            ("degraded_free_run", o.stats.degraded_free_run as u64),
        ] {
            *agg.counters.entry(k.into()).or_insert(0) += v;
        }
        *agg.counters.entry(format!("gran.{}", plan.gran.name())).or_insert(0) += 1;
        *agg.counters.entry(format!("lru.{}", plan.lru)).or_insert(0) += 1;
        agg.max_steps_to_cancel = agg.max_steps_to_cancel.max(o.stats.max_steps_to_cancel);
        agg.max_apply_steps = agg.max_apply_steps.max(o.stats.max_apply_steps);
        if agg.samples.len() < 2 && o.stats.nontrivial {
            let mut p = plan.clone();
            p.decisions = Some(o.decisions.iter().take(60).cloned().collect());
            let mut j = p.to_json();
            j["note"] = json!("decision list abbreviated to its first 60 entries");
            agg.samples.push(j);
        }
        if let Some(e) = &o.harness_error {
            agg.harness_errors.push(format!("run {run}: {e}"));
        }
        if let Some(v) = &o.violation {
            let mut p = plan.clone();
            p.decisions = Some(o.decisions.clone());
            let mut j = p.to_json();
            j["violation"] = v.to_json();
            j["event_log_hash"] = json!(format!("{:016x}", o.stats.log_hash));
            let path = format!("{out}/raw-{prop}-{seed}-{run}.json");
            std::fs::write(&path, serde_json::to_string_pretty(&j).unwrap()).unwrap();
            agg.violations.push(json!({"run": run, "path": path, "violation": v.to_json()}));
            if o.poisoned {
                poisoned = true;
                break;
            }
            if agg.violations.len() >= 5 {
                break;
            }
        }
        run += stride;
    }
    let wall = t0.elapsed().as_secs_f64();
    let j = json!({
        "worker": worker, "prop": prop, "seed": seed, "from": from, "to": to, "stride": stride,
        "next_run": run, "runs": agg.runs, "steps": agg.steps, "contended_runs": agg.contended_runs,
        "nontrivial_hashes": agg.nontrivial_hashes.iter().map(|h| format!("{h:016x}")).collect::<Vec<_>>(),
        "faults": agg.faults, "probes": agg.probes, "change_kinds": agg.change_kinds, "counters": agg.counters,
        "max_steps_to_cancel": agg.max_steps_to_cancel, "max_apply_steps": agg.max_apply_steps,
        "violations": agg.violations, "harness_errors": agg.harness_errors, "samples": agg.samples,
        "log_hashes": agg.log_hashes.iter().map(|(r, h)| json!([r, format!("{h:016x}")])).collect::<Vec<_>>(),
        "wall_s": wall, "getrandom_calls": hashseed::CALLS.load(std::sync::atomic::Ordering::Relaxed),
    });
    std::fs::write(format!("{out}/worker-{worker}.json"), serde_json::to_string(&j).unwrap()).unwrap();
    if poisoned {
        // Deadlocked threads cannot be joined; leave at once.
        std::process::exit(0);
    }
    0
}

fn ide_replay(args: &[String]) -> i32 {
    let path = &args[0];
    let v: Value = serde_json::from_str(&std::fs::read_to_string(path).expect("read replay")).expect("json");
    let plan = ide_sim::Plan::from_json(&v);
    let o = ide_sim::run_plan(&plan, true);
    if flag(args, "--log") {
        for l in o.log.as_deref().unwrap_or(&[]) {
            println!("{l}");
        }
    }
    let res = json!({
        "violation": o.violation.as_ref().map(|v| v.to_json()),
        "harness_error": o.harness_error,
        "event_log_hash": format!("{:016x}", o.stats.log_hash),
        "steps": o.stats.steps, "replay_misses": o.stats.replay_misses,
        "degraded_free_run": o.stats.degraded_free_run,
    });
    println!("RESULT {}", serde_json::to_string(&res).unwrap());
    if let Some(outp) = arg(args, "--write") {
        let mut p = plan.clone();
        p.decisions = Some(o.decisions.clone());
        let mut j = p.to_json();
        if let Some(v) = &o.violation {
            j["violation"] = v.to_json();
        }
        j["event_log_hash"] = json!(format!("{:016x}", o.stats.log_hash));
        std::fs::write(outp, serde_json::to_string_pretty(&j).unwrap()).unwrap();
    }
    if o.poisoned {
        std::process::exit(if o.violation.is_some() { 1 } else { 2 });
    }
    match (&o.violation, &o.harness_error) {
        (Some(_), _) => 1,
        (None, Some(_)) => 2,
        _ => 0,
    }
}

fn ide_log(args: &[String]) -> i32 {
    let prop = arg(args, "--prop").expect("--prop");
    let seed: u64 = arg(args, "--seed").and_then(|s| s.parse().ok()).unwrap_or(1);
    let run: u64 = arg(args, "--run").and_then(|s| s.parse().ok()).unwrap_or(0);
    let warm: u64 = arg(args, "--warm").and_then(|s| s.parse().ok()).unwrap_or(0);
    let thorough = arg(args, "--tier").as_deref() == Some("thorough");
    for r in 0..warm {
        let plan = ide_sim::gen_plan(&prop, seed, 1000 + r, thorough);
        let _ = ide_sim::run_plan(&plan, false);
    }
    let plan = ide_sim::gen_plan(&prop, seed, run, thorough);
    let o = ide_sim::run_plan(&plan, true);
    for l in o.log.as_deref().unwrap_or(&[]) {
        println!("{l}");
    }
    println!("HASH {:016x}", o.stats.log_hash);
    0
}

fn ide_shrink(args: &[String]) -> i32 {
    let path = &args[0];
    let out = arg(args, "--write").expect("--write");
    let budget: u64 = arg(args, "--budget").and_then(|s| s.parse().ok()).unwrap_or(60);
    let v: Value = serde_json::from_str(&std::fs::read_to_string(path).expect("read replay")).expect("json");
    let plan = ide_sim::Plan::from_json(&v);
    let sig = v["violation"]["signature"].as_str().expect("violation.signature").to_string();
    let (small, tries) = ide_sim::shrink(&plan, &sig, std::time::Duration::from_secs(budget));
    // final run with log, to store the violation text and hash of the minimised plan
    let o = ide_sim::run_plan(&small, true);
    let mut p = small.clone();
    p.decisions = small.decisions.clone();
    let mut j = p.to_json();
    match &o.violation {
        Some(v) => j["violation"] = v.to_json(),
        None => {
            eprintln!("shrink: minimised plan does not fail any more; keeping the original");
            std::fs::copy(path, &out).unwrap();
            return 0;
        }
    }
    j["event_log_hash"] = json!(format!("{:016x}", o.stats.log_hash));
    j["shrink"] = json!({"candidates_tried": tries, "ops_before": plan.ops.len(), "ops_after": small.ops.len(),
        "decisions_before": plan.decisions.as_ref().map_or(0, |d| d.len()), "decisions_after": small.decisions.as_ref().map_or(0, |d| d.len())});
    std::fs::write(&out, serde_json::to_string_pretty(&j).unwrap()).unwrap();
    println!("SHRUNK {}", serde_json::to_string(&j["shrink"]).unwrap());
    if o.poisoned {
        std::process::exit(0);
    }
    0
}

fn main() {
    install_quiet_panic_hook();
    let args: Vec<String> = std::env::args().skip(1).collect();
    let code = match args.first().map(|s| s.as_str()) {
        Some("ide-worker") => ide_worker(&args[1..]),
        Some("ide-replay") => ide_replay(&args[1..]),
        Some("ide-shrink") => ide_shrink(&args[1..]),
        Some("ide-log") => ide_log(&args[1..]),
        _ => {
            eprintln!("usage: glas-sim <ide-worker|ide-replay|...> ...");
            2
        }
    };
    std::process::exit(code);
}
