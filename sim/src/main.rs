//! glas-sim: deterministic simulation of the glas analysis database (ide-sim) and language
//! server (lsp-sim). See /verif/DESIGN.md.
mod core;
mod gen;
mod hashseed;
mod c13;
mod c15;
mod c16;
mod c17;
mod ide_sim;
mod lsp;
mod lspcheck;
mod query;
mod rng;
mod sysseam;

use serde_json::{json, Value};
use std::collections::{BTreeMap, BTreeSet};
use std::time::Instant;

/// std finds this through a weak symbol lookup (see build.rs); every `RandomState` key in the
/// process therefore comes from `hashseed::fill`.
#[no_mangle]
pub unsafe extern "C" fn getrandom(buf: *mut libc::c_void, len: libc::size_t, _flags: libc::c_uint) -> libc::ssize_t {
    let slice = std::slice::from_raw_parts_mut(buf as *mut u8, len);
    hashseed::fill(slice);
    len as libc::ssize_t
}

fn arg(args: &[String], name: &str) -> Option<String> {
    args.iter()
        .position(|a| a == name)
        .and_then(|i| args.get(i + 1).cloned())
}

fn flag(args: &[String], name: &str) -> bool {
    args.iter().any(|a| a == name)
}

fn install_quiet_panic_hook() {
    let verbose = std::env::var("VERIF_PANIC_VERBOSE").is_ok();
    std::panic::set_hook(Box::new(move |info| {
        if verbose {
            eprintln!("[panic] {info}");
        }
    }));
}

fn add_map(into: &mut BTreeMap<String, u64>, from: &BTreeMap<String, u64>) {
    for (k, v) in from {
        *into.entry(k.clone()).or_insert(0) += v;
    }
}

#[derive(Default)]
struct Agg {
    runs: u64,
    steps: u64,
    contended_runs: u64,
    nontrivial_hashes: BTreeSet<u64>,
    faults: BTreeMap<String, u64>,
    probes: BTreeMap<String, u64>,
    change_kinds: BTreeMap<String, u64>,
    counters: BTreeMap<String, u64>,
    max_steps_to_cancel: u32,
    max_apply_steps: u64,
    violations: Vec<Value>,
    harness_errors: Vec<String>,
    samples: Vec<Value>,
    log_hashes: Vec<(u64, u64)>,
}

fn ide_worker(args: &[String]) -> i32 {
    let prop = arg(args, "--prop").expect("--prop");
    let seed: u64 = arg(args, "--seed").and_then(|s| s.parse().ok()).unwrap_or(1);
    let from: u64 = arg(args, "--from").and_then(|s| s.parse().ok()).unwrap_or(0);
    let to: u64 = arg(args, "--to").and_then(|s| s.parse().ok()).unwrap_or(100);
    let stride: u64 = arg(args, "--stride").and_then(|s| s.parse().ok()).unwrap_or(1);
    let thorough = arg(args, "--tier").as_deref() == Some("thorough");
    let out = arg(args, "--out").expect("--out");
    let worker = arg(args, "--worker").unwrap_or_else(|| "0".into());
    let budget_s: f64 = arg(args, "--time-budget").and_then(|s| s.parse().ok()).unwrap_or(1e9);
    let want_hashes = flag(args, "--log-hashes");
    let t0 = Instant::now();
    let mut agg = Agg::default();
    let mut run = from;
    let mut poisoned = false;
    while run < to {
        if t0.elapsed().as_secs_f64() > budget_s {
            break;
        }
        // should this process die inside the run (abort, stack overflow), the driver learns which
        let _ = std::fs::write(format!("{out}/worker-{worker}.current"), run.to_string());
        let plan = ide_sim::gen_plan(&prop, seed, run, thorough);
        let o = ide_sim::run_plan(&plan, false);
        agg.runs += 1;
        agg.steps += o.stats.steps;
        if o.stats.contended > 0 {
            agg.contended_runs += 1;
        }
        if o.stats.nontrivial {
            agg.nontrivial_hashes.insert(o.stats.trace_hash);
        }
        if want_hashes {
            agg.log_hashes.push((run, o.stats.log_hash));
        }
        add_map(&mut agg.faults, &o.stats.faults);
        add_map(&mut agg.probes, &o.stats.probes);
        add_map(&mut agg.change_kinds, &o.stats.change_kinds);
        for (k, v) in [
            ("reader_results", o.stats.reader_results),
            ("cancelled", o.stats.cancelled),
            ("answers_checked", o.stats.answers_checked),
            ("compares", o.stats.compares),
            ("compared_queries", o.stats.compared_queries),
            ("excluded_sequential_panic", o.stats.excluded_sequential_panic),
            ("order_only_diffs", o.stats.order_only_diffs),
            ("cancelled_by_peer_panic", o.stats.cancelled_by_peer_panic),
            ("compare_skipped_peer_panic", o.stats.compare_skipped),
            ("oracle_unstable", o.stats.fresh_ab_disagree),
            ("degraded_free_run", o.stats.degraded_free_run as u64),
        ] {
            *agg.counters.entry(k.into()).or_insert(0) += v;
        }
        *agg.counters.entry(format!("gran.{}", plan.gran.name())).or_insert(0) += 1;
        *agg.counters.entry(format!("lru.{}", plan.lru)).or_insert(0) += 1;
        agg.max_steps_to_cancel = agg.max_steps_to_cancel.max(o.stats.max_steps_to_cancel);
        agg.max_apply_steps = agg.max_apply_steps.max(o.stats.max_apply_steps);
        if agg.samples.len() < 2 && o.stats.nontrivial {
            let mut p = plan.clone();
            p.decisions = Some(o.decisions.iter().take(60).cloned().collect());
            let mut j = p.to_json();
            j["note"] = json!("decision list abbreviated to its first 60 entries");
            agg.samples.push(j);
        }
        if let Some(e) = &o.harness_error {
            agg.harness_errors.push(format!("run {run}: {e}"));
        }
        if let Some(v) = &o.violation {
            let mut p = plan.clone();
            p.decisions = Some(o.decisions.clone());
            let mut j = p.to_json();
            j["violation"] = v.to_json();
            j["event_log_hash"] = json!(format!("{:016x}", o.stats.log_hash));
            let path = format!("{out}/raw-{prop}-{seed}-{run}.json");
            std::fs::write(&path, serde_json::to_string_pretty(&j).unwrap()).unwrap();
            agg.violations.push(json!({"run": run, "path": path, "violation": v.to_json()}));
            if o.poisoned {
                poisoned = true;
                break;
            }
            if agg.violations.len() >= 5 {
                break;
            }
        }
        run += stride;
    }
    let wall = t0.elapsed().as_secs_f64();
    let j = json!({
        "worker": worker, "prop": prop, "seed": seed, "from": from, "to": to, "stride": stride,
        "next_run": run, "runs": agg.runs, "steps": agg.steps, "contended_runs": agg.contended_runs,
        "nontrivial_hashes": agg.nontrivial_hashes.iter().map(|h| format!("{h:016x}")).collect::<Vec<_>>(),
        "faults": agg.faults, "probes": agg.probes, "change_kinds": agg.change_kinds, "counters": agg.counters,
        "max_steps_to_cancel": agg.max_steps_to_cancel, "max_apply_steps": agg.max_apply_steps,
        "violations": agg.violations, "harness_errors": agg.harness_errors, "samples": agg.samples,
        "log_hashes": agg.log_hashes.iter().map(|(r, h)| json!([r, format!("{h:016x}")])).collect::<Vec<_>>(),
        "wall_s": wall, "getrandom_calls": hashseed::CALLS.load(std::sync::atomic::Ordering::Relaxed),
        "left_early": poisoned,
    });
    std::fs::write(format!("{out}/worker-{worker}.json"), serde_json::to_string(&j).unwrap()).unwrap();
    if poisoned {
        // Deadlocked threads cannot be joined; leave at once.
        std::process::exit(0);
    }
    0
}

fn ide_replay(args: &[String]) -> i32 {
    let path = &args[0];
    let v: Value = serde_json::from_str(&std::fs::read_to_string(path).expect("read replay")).expect("json");
    let plan = ide_sim::Plan::from_json(&v);
    let o = ide_sim::run_plan(&plan, true);
    if flag(args, "--log") {
        for l in o.log.as_deref().unwrap_or(&[]) {
            println!("{l}");
        }
    }
    let res = json!({
        "violation": o.violation.as_ref().map(|v| v.to_json()),
        "harness_error": o.harness_error,
        "event_log_hash": format!("{:016x}", o.stats.log_hash),
        "steps": o.stats.steps, "replay_misses": o.stats.replay_misses,
        "degraded_free_run": o.stats.degraded_free_run,
    });
    println!("RESULT {}", serde_json::to_string(&res).unwrap());
    if let Some(outp) = arg(args, "--write") {
        let mut p = plan.clone();
        p.decisions = Some(o.decisions.clone());
        let mut j = p.to_json();
        if let Some(v) = &o.violation {
            j["violation"] = v.to_json();
        }
        j["event_log_hash"] = json!(format!("{:016x}", o.stats.log_hash));
        std::fs::write(outp, serde_json::to_string_pretty(&j).unwrap()).unwrap();
    }
    if o.poisoned {
        std::process::exit(if o.violation.is_some() { 1 } else { 2 });
    }
    match (&o.violation, &o.harness_error) {
        (Some(_), _) => 1,
        (None, Some(_)) => 2,
        _ => 0,
    }
}

// ---------------------------------------------------------------------------------------------
// lsp-sim front end

struct LspEval {
    violation: Option<ide_sim::Violation>,
    nontrivial: bool,
    kind_key: String,
    counters: BTreeMap<String, u64>,
}

fn lsp_gen(prop: &str, seed: u64, run: u64, thorough: bool) -> lsp::Session {
    match prop {
        "C13" => c13::gen_session(seed, run, thorough),
        "C15" => c15::gen_session(seed, run, thorough),
        "C16" => c16::gen_session(seed, run, thorough),
        "C17" => c17::gen_session(seed, run, thorough),
        _ => panic!("unknown lsp property {prop}"),
    }
}

fn lsp_eval(s: &lsp::Session, h: &lsp::History) -> LspEval {
    let mut counters = BTreeMap::new();
    match s.property.as_str() {
        "C13" => {
            let mut st = c13::Stats::default();
            let violation = c13::check(s, h, &mut st);
            counters.insert("probes_checked".to_string(), st.probes_checked);
            counters.insert("edits_applied".to_string(), st.edits_applied);
            counters.insert("syntax_tree_crosschecks".to_string(), st.syntax_tree_crosschecks);
            counters.insert("systematic_sweep_edits".to_string(), st.sweep_edits);
            counters.insert("skipped_server_negotiated_other_encoding".to_string(), st.negotiated_other_encoding);
            for p in s.ops.iter().take(1) {
                for t in p.tags.iter().filter(|t| t.starts_with("client.offers_encodings")) {
                    counters.insert(t.clone(), 1);
                }
            }
            LspEval { violation, nontrivial: st.nontrivial, kind_key: st.kind_key, counters }
        }
        "C15" => {
            let mut st = c15::Stats::default();
            let violation = c15::check(s, h, &mut st);
            for (k, v) in [
                ("probes_checked", st.probes_checked),
                ("invalid_or_unusual_messages", st.invalid_ops),
                ("disk_fault_ops", st.disk_faults),
                ("outcome_forgotten", st.forgotten_outcomes),
                ("outcome_applied", st.applied_outcomes),
                ("responses_error", st.error_responses),
                ("responses_result", st.result_responses),
            ] {
                counters.insert(k.to_string(), v);
            }
            for p in &s.ops {
                for t in &p.tags {
                    if t.starts_with("request.") || t.starts_with("cancelRequest.") || t.starts_with("notification.") || t.starts_with("didChange.") || t.starts_with("didOpen.") || t.starts_with("didClose.") || t.starts_with("disk.") || t.starts_with("didChangeWatchedFiles") {
                        *counters.entry(format!("sent.{t}")).or_insert(0) += 1;
                    }
                }
            }
            LspEval { violation, nontrivial: st.nontrivial, kind_key: st.kind_key, counters }
        }
        "C16" => {
            let mut st = c16::Stats::default();
            let violation = c16::check(s, h, &mut st);
            for (k, v) in [
                ("requests", st.requests),
                ("results_compared_with_reference", st.results_compared),
                ("responses_error", st.error_responses),
                ("responses_cancelled", st.cancelled_responses),
                ("reference_sessions", st.reference_sessions),
                ("error_responses_compared_with_reference", st.errors_compared),
                ("answers_explained_by_disk_writes_seen_early", st.disk_seen_early),
                ("oracle_unstable", st.oracle_unstable),
                ("diagnostics_compared", st.diagnostics_compared),
            ] {
                counters.insert(k.to_string(), v);
            }
            LspEval { violation, nontrivial: st.nontrivial, kind_key: String::new(), counters }
        }
        "C17" => {
            let mut st = c17::Stats::default();
            let violation = c17::check(s, h, &mut st);
            for (k, v) in [
                ("imports_checked", st.imports_checked),
                ("resolved_to_target", st.resolved_to_target),
                ("resolved_to_nothing_as_expected", st.resolved_to_nothing_as_expected),
                ("late_unresolved_accepted", st.late_unresolved_accepted),
                ("rename_refusals_checked", st.rename_refusals_checked),
            ] {
                counters.insert(k.to_string(), v);
            }
            LspEval { violation, nontrivial: st.nontrivial, kind_key: st.kind_key, counters }
        }
        p => panic!("unknown lsp property {p}"),
    }
}

fn fnv_str(s: &str) -> u64 {
    let mut h = rng::Fnv::default();
    h.write_str(s);
    h.0
}

fn lsp_worker(args: &[String]) -> i32 {
    let prop = arg(args, "--prop").expect("--prop");
    let seed: u64 = arg(args, "--seed").and_then(|s| s.parse().ok()).unwrap_or(1);
    let from: u64 = arg(args, "--from").and_then(|s| s.parse().ok()).unwrap_or(0);
    let to: u64 = arg(args, "--to").and_then(|s| s.parse().ok()).unwrap_or(100);
    let stride: u64 = arg(args, "--stride").and_then(|s| s.parse().ok()).unwrap_or(1);
    let thorough = arg(args, "--tier").as_deref() == Some("thorough");
    let out = arg(args, "--out").expect("--out");
    let worker = arg(args, "--worker").unwrap_or_else(|| "0".into());
    let budget_s: f64 = arg(args, "--time-budget").and_then(|s| s.parse().ok()).unwrap_or(1e9);
    let want_hashes = flag(args, "--log-hashes");
    let t0 = Instant::now();
    let mut agg = Agg::default();
    let mut run = from;
    let mut poisoned = false;
    while run < to {
        if t0.elapsed().as_secs_f64() > budget_s {
            break;
        }
        let _ = std::fs::write(format!("{out}/worker-{worker}.current"), run.to_string());
        let s = lsp_gen(&prop, seed, run, thorough);
        let h = lsp::run_session(&s, false);
        let ev = lsp_eval(&s, &h);
        agg.runs += 1;
        agg.steps += h.steps;
        if h.contended > 0 {
            agg.contended_runs += 1;
        }
        if ev.nontrivial {
            let key = if s.sequential { fnv_str(&ev.kind_key) } else { h.trace_hash };
            agg.nontrivial_hashes.insert(key);
        }
        if want_hashes {
            agg.log_hashes.push((run, h.log_hash));
        }
        add_map(&mut agg.faults, &h.faults);
        add_map(&mut agg.probes, &h.probes);
        add_map(&mut agg.counters, &ev.counters);
        add_map(&mut agg.change_kinds, &h.point_counts);
        for (k, v) in [
            ("degraded_free_run", h.degraded_free_run as u64),
            ("tasks_spawned", h.tasks_spawned),
            ("completed", h.completed as u64),
            ("messages_received", h.events.iter().filter(|e| matches!(e, lsp::Ev::Recv { .. })).count() as u64),
            ("messages_sent", h.events.iter().filter(|e| matches!(e, lsp::Ev::Sent { .. })).count() as u64),
        ] {
            *agg.counters.entry(k.into()).or_insert(0) += v;
        }
        *agg.counters.entry(format!("gran.{}", s.gran.name())).or_insert(0) += 1;
        *agg.counters.entry(format!("concurrency.{}", s.concurrency)).or_insert(0) += 1;
        if agg.samples.len() < 2 && ev.nontrivial {
            let mut p = s.clone();
            p.decisions = Some(h.decisions.iter().take(60).cloned().collect());
            let mut j = p.to_json();
            j["note"] = json!("decision list abbreviated to its first 60 entries");
            agg.samples.push(j);
        }
        if let Some(v) = &ev.violation {
            let mut p = s.clone();
            p.decisions = Some(h.decisions.clone());
            let mut j = p.to_json();
            j["violation"] = v.to_json();
            j["event_log_hash"] = json!(format!("{:016x}", h.log_hash));
            let sig = v.signature();
            let seen = agg.violations.iter().filter(|x| x["violation"]["signature"] == sig.as_str()).count();
            *agg.counters.entry(format!("violation.{sig}")).or_insert(0) += 1;
            if seen < 2 {
                let path = format!("{out}/raw-{prop}-{seed}-{run}.json");
                std::fs::write(&path, serde_json::to_string_pretty(&j).unwrap()).unwrap();
                agg.violations.push(json!({"run": run, "path": path, "violation": v.to_json()}));
            }
            if h.poisoned {
                poisoned = true;
                break;
            }
            if agg.violations.len() >= 12 {
                break;
            }
        } else if h.poisoned {
            agg.harness_errors.push(format!("run {run}: threads stuck after the run without a violation"));
            poisoned = true;
            break;
        }
        run += stride;
    }
    let wall = t0.elapsed().as_secs_f64();
    let j = json!({
        "worker": worker, "prop": prop, "seed": seed, "from": from, "to": to, "stride": stride,
        "next_run": run, "runs": agg.runs, "steps": agg.steps, "contended_runs": agg.contended_runs,
        "nontrivial_hashes": agg.nontrivial_hashes.iter().map(|h| format!("{h:016x}")).collect::<Vec<_>>(),
        "faults": agg.faults, "probes": agg.probes, "change_kinds": agg.change_kinds, "counters": agg.counters,
        "violations": agg.violations, "harness_errors": agg.harness_errors, "samples": agg.samples,
        "log_hashes": agg.log_hashes.iter().map(|(r, h)| json!([r, format!("{h:016x}")])).collect::<Vec<_>>(),
        "wall_s": wall, "left_early": poisoned,
    });
    std::fs::write(format!("{out}/worker-{worker}.json"), serde_json::to_string(&j).unwrap()).unwrap();
    if poisoned {
        std::process::exit(0);
    }
    0
}

fn ide_plan(args: &[String]) -> i32 {
    let prop = arg(args, "--prop").expect("--prop");
    let seed: u64 = arg(args, "--seed").and_then(|s| s.parse().ok()).unwrap_or(1);
    let run: u64 = arg(args, "--run").and_then(|s| s.parse().ok()).unwrap_or(0);
    let thorough = arg(args, "--tier").as_deref() == Some("thorough");
    let plan = ide_sim::gen_plan(&prop, seed, run, thorough);
    let out = arg(args, "--write").expect("--write");
    std::fs::write(out, serde_json::to_string_pretty(&plan.to_json()).unwrap()).unwrap();
    0
}

fn lsp_plan(args: &[String]) -> i32 {
    let prop = arg(args, "--prop").expect("--prop");
    let seed: u64 = arg(args, "--seed").and_then(|s| s.parse().ok()).unwrap_or(1);
    let run: u64 = arg(args, "--run").and_then(|s| s.parse().ok()).unwrap_or(0);
    let thorough = arg(args, "--tier").as_deref() == Some("thorough");
    let s = lsp_gen(&prop, seed, run, thorough);
    let out = arg(args, "--write").expect("--write");
    std::fs::write(out, serde_json::to_string_pretty(&s.to_json()).unwrap()).unwrap();
    0
}

fn lsp_replay(args: &[String]) -> i32 {
    let path = &args[0];
    let v: Value = serde_json::from_str(&std::fs::read_to_string(path).expect("read replay")).expect("json");
    let s = lsp::Session::from_json(&v);
    let h = lsp::run_session(&s, true);
    let ev = lsp_eval(&s, &h);
    if flag(args, "--log") {
        for l in h.log.as_deref().unwrap_or(&[]) {
            println!("{l}");
        }
        for e in &h.events {
            println!("EV {}", format!("{e:?}").chars().take(6000).collect::<String>());
        }
    }
    let res = json!({
        "violation": ev.violation.as_ref().map(|v| v.to_json()),
        "harness_error": null,
        "event_log_hash": format!("{:016x}", h.log_hash),
        "steps": h.steps, "replay_misses": h.replay_misses,
        "degraded_free_run": h.degraded_free_run, "server_exit": h.server_exit, "completed": h.completed,
    });
    println!("RESULT {}", serde_json::to_string(&res).unwrap());
    if let Some(outp) = arg(args, "--write") {
        let mut p = s.clone();
        p.decisions = Some(h.decisions.clone());
        let mut j = p.to_json();
        if let Some(v) = &ev.violation {
            j["violation"] = v.to_json();
        }
        j["event_log_hash"] = json!(format!("{:016x}", h.log_hash));
        std::fs::write(outp, serde_json::to_string_pretty(&j).unwrap()).unwrap();
    }
    let code = if ev.violation.is_some() { 1 } else { 0 };
    if h.poisoned {
        std::process::exit(code);
    }
    code
}

/// ddmin-style shrinking of a failing session while the violation signature persists.
fn lsp_shrink(args: &[String]) -> i32 {
    let path = &args[0];
    let out = arg(args, "--write").expect("--write");
    let budget = std::time::Duration::from_secs(arg(args, "--budget").and_then(|s| s.parse().ok()).unwrap_or(60));
    let v: Value = serde_json::from_str(&std::fs::read_to_string(path).expect("read replay")).expect("json");
    let orig = lsp::Session::from_json(&v);
    let sig = v["violation"]["signature"].as_str().expect("violation.signature").to_string();
    let t0 = Instant::now();
    let mut tries = 0u32;
    let mut poisoned = false;
    let mut fails = |s: &lsp::Session, tries: &mut u32, poisoned: &mut bool| -> Option<Vec<String>> {
        if *poisoned {
            return None;
        }
        *tries += 1;
        let h = lsp::run_session(s, false);
        let ev = lsp_eval(s, &h);
        if h.poisoned {
            *poisoned = true;
        }
        match ev.violation {
            Some(v) if v.signature() == sig => Some(h.decisions),
            _ => None,
        }
    };
    let mut best = orig.clone();
    if let Some(d) = fails(&best, &mut tries, &mut poisoned) {
        best.decisions = Some(d);
        let mut progress = true;
        while progress && t0.elapsed() < budget && !poisoned {
            progress = false;
            // 1. drop operations (chunks first, then single), never the 4-op preamble
            let mut chunk = (best.ops.len() / 2).max(1);
            while chunk >= 1 && t0.elapsed() < budget && !poisoned {
                let mut i = best.ops.len();
                while i > 4 && t0.elapsed() < budget && !poisoned {
                    let lo = i.saturating_sub(chunk).max(4);
                    let mut cand = best.clone();
                    cand.drain_ops(lo, i);
                    if let Some(d) = fails(&cand, &mut tries, &mut poisoned) {
                        cand.decisions = Some(d);
                        best = cand;
                        progress = true;
                    }
                    i = lo;
                }
                if chunk == 1 {
                    break;
                }
                chunk /= 2;
            }
            // 2. simplify operations: fewer edits per change, no fragmentation, shorter texts
            for i in 4..best.ops.len() {
                if t0.elapsed() >= budget || poisoned {
                    break;
                }
                let mut cands: Vec<lsp::PlannedOp> = Vec::new();
                let p = best.ops[i].clone();
                if !p.cuts.is_empty() {
                    let mut c = p.clone();
                    c.cuts.clear();
                    cands.push(c);
                }
                match &p.op {
                    lsp::Op::Change { uri, edits } if edits.len() > 1 => {
                        for k in (0..edits.len()).rev() {
                            let mut e2 = edits.clone();
                            e2.remove(k);
                            let mut c = p.clone();
                            c.op = lsp::Op::Change { uri: uri.clone(), edits: e2 };
                            cands.push(c);
                        }
                    }
                    lsp::Op::Change { uri, edits } if edits.len() == 1 && edits[0].text.chars().count() > 1 => {
                        let mut e2 = edits.clone();
                        let t: String = e2[0].text.chars().take(e2[0].text.chars().count() / 2).collect();
                        e2[0].text = t;
                        let mut c = p.clone();
                        c.op = lsp::Op::Change { uri: uri.clone(), edits: e2 };
                        cands.push(c);
                    }
                    lsp::Op::Open { uri, text } if text.chars().count() > 1 && best.property != "C17" => {
                        for keep in [text.chars().count() / 2, text.chars().count() - 1] {
                            let t: String = text.chars().take(keep).collect();
                            let mut c = p.clone();
                            c.op = lsp::Op::Open { uri: uri.clone(), text: t };
                            cands.push(c);
                        }
                    }
                    _ => {}
                }
                for c in cands {
                    let mut cand = best.clone();
                    cand.ops[i] = c;
                    if let Some(d) = fails(&cand, &mut tries, &mut poisoned) {
                        cand.decisions = Some(d);
                        best = cand;
                        progress = true;
                        break;
                    }
                }
            }
            // 3. faults and knobs
            if !best.crashes.is_empty() {
                for k in (0..best.crashes.len()).rev() {
                    let mut cand = best.clone();
                    cand.crashes.remove(k);
                    if let Some(d) = fails(&cand, &mut tries, &mut poisoned) {
                        cand.decisions = Some(d);
                        best = cand;
                        progress = true;
                    }
                }
            }
            if !best.midload_at.is_empty() {
                for k in (0..best.midload_at.len()).rev() {
                    let mut cand = best.clone();
                    cand.midload_at.remove(k);
                    if cand.midload_at.is_empty() && cand.midload.is_empty() {
                        cand.decisions = None;
                    }
                    if let Some(d) = fails(&cand, &mut tries, &mut poisoned) {
                        cand.decisions = Some(d);
                        best = cand;
                        progress = true;
                    }
                }
            }
            if !best.midload.is_empty() {
                for k in (0..best.midload.len()).rev() {
                    let mut cand = best.clone();
                    cand.midload.remove(k);
                    if cand.midload.is_empty() && cand.midload_at.is_empty() {
                        // the loader's points stop being decision points: recorded decisions are stale
                        cand.decisions = None;
                    }
                    if let Some(d) = fails(&cand, &mut tries, &mut poisoned) {
                        cand.decisions = Some(d);
                        best = cand;
                        progress = true;
                    }
                }
            }
            if best.gran != core::Granularity::Coarse {
                let mut cand = best.clone();
                cand.gran = core::Granularity::Coarse;
                cand.decisions = None;
                if let Some(d) = fails(&cand, &mut tries, &mut poisoned) {
                    cand.decisions = Some(d);
                    best = cand;
                    progress = true;
                }
            }
        }
        // 4. shortest decision prefix
        if let Some(dec) = best.decisions.clone() {
            let (mut lo, mut hi) = (0usize, dec.len());
            while lo < hi && t0.elapsed() < budget && !poisoned {
                let mid = (lo + hi) / 2;
                let mut cand = best.clone();
                cand.decisions = Some(dec[..mid].to_vec());
                if fails(&cand, &mut tries, &mut poisoned).is_some() {
                    hi = mid;
                } else {
                    lo = mid + 1;
                }
            }
            let mut cand = best.clone();
            cand.decisions = Some(dec[..hi].to_vec());
            if fails(&cand, &mut tries, &mut poisoned).is_some() {
                best = cand;
            }
        }
    }
    let mut j = best.to_json();
    j["violation"] = v["violation"].clone();
    if !poisoned {
        let h = lsp::run_session(&best, true);
        let ev = lsp_eval(&best, &h);
        if let Some(vi) = &ev.violation {
            j["violation"] = vi.to_json();
            j["event_log_hash"] = json!(format!("{:016x}", h.log_hash));
        }
        if h.poisoned {
            poisoned = true;
        }
    }
    j["shrink"] = json!({"candidates_tried": tries, "ops_before": orig.ops.len(), "ops_after": best.ops.len(),
        "decisions_before": orig.decisions.as_ref().map_or(0, |d| d.len()), "decisions_after": best.decisions.as_ref().map_or(0, |d| d.len())});
    std::fs::write(&out, serde_json::to_string_pretty(&j).unwrap()).unwrap();
    println!("SHRUNK {}", serde_json::to_string(&j["shrink"]).unwrap());
    if poisoned {
        std::process::exit(0);
    }
    0
}

fn ide_log(args: &[String]) -> i32 {
    let prop = arg(args, "--prop").expect("--prop");
    let seed: u64 = arg(args, "--seed").and_then(|s| s.parse().ok()).unwrap_or(1);
    let run: u64 = arg(args, "--run").and_then(|s| s.parse().ok()).unwrap_or(0);
    let warm: u64 = arg(args, "--warm").and_then(|s| s.parse().ok()).unwrap_or(0);
    let thorough = arg(args, "--tier").as_deref() == Some("thorough");
    for r in 0..warm {
        let plan = ide_sim::gen_plan(&prop, seed, 1000 + r, thorough);
        let _ = ide_sim::run_plan(&plan, false);
    }
    let plan = ide_sim::gen_plan(&prop, seed, run, thorough);
    let o = ide_sim::run_plan(&plan, true);
    for l in o.log.as_deref().unwrap_or(&[]) {
        println!("{l}");
    }
    println!("HASH {:016x}", o.stats.log_hash);
    0
}

fn ide_shrink(args: &[String]) -> i32 {
    let path = &args[0];
    let out = arg(args, "--write").expect("--write");
    let budget: u64 = arg(args, "--budget").and_then(|s| s.parse().ok()).unwrap_or(60);
    let v: Value = serde_json::from_str(&std::fs::read_to_string(path).expect("read replay")).expect("json");
    let plan = ide_sim::Plan::from_json(&v);
    let sig = v["violation"]["signature"].as_str().expect("violation.signature").to_string();
    let (small, tries) = ide_sim::shrink(&plan, &sig, std::time::Duration::from_secs(budget));
    // final run with log, to store the violation text and hash of the minimised plan
    let o = ide_sim::run_plan(&small, true);
    let mut p = small.clone();
    p.decisions = small.decisions.clone();
    let mut j = p.to_json();
    match &o.violation {
        Some(v) => j["violation"] = v.to_json(),
        None => {
            eprintln!("shrink: minimised plan does not fail any more; keeping the original");
            std::fs::copy(path, &out).unwrap();
            return 0;
        }
    }
    j["event_log_hash"] = json!(format!("{:016x}", o.stats.log_hash));
    j["shrink"] = json!({"candidates_tried": tries, "ops_before": plan.ops.len(), "ops_after": small.ops.len(),
        "decisions_before": plan.decisions.as_ref().map_or(0, |d| d.len()), "decisions_after": small.decisions.as_ref().map_or(0, |d| d.len())});
    std::fs::write(&out, serde_json::to_string_pretty(&j).unwrap()).unwrap();
    println!("SHRUNK {}", serde_json::to_string(&j["shrink"]).unwrap());
    if o.poisoned {
        std::process::exit(0);
    }
    0
}

fn main() {
    install_quiet_panic_hook();
    if std::env::var("VERIF_TRACE").is_ok() {
        // debugging aid: the server's own tracing output on stderr
        let _ = tracing_subscriber::fmt()
            .with_env_filter(tracing_subscriber::EnvFilter::new(std::env::var("VERIF_TRACE").unwrap()))
            .with_writer(std::io::stderr)
            .try_init();
    }
    let args: Vec<String> = std::env::args().skip(1).collect();
    let code = match args.first().map(|s| s.as_str()) {
        Some("ide-worker") => ide_worker(&args[1..]),
        Some("ide-replay") => ide_replay(&args[1..]),
        Some("ide-shrink") => ide_shrink(&args[1..]),
        Some("ide-log") => ide_log(&args[1..]),
        Some("ide-plan") => ide_plan(&args[1..]),
        Some("lsp-worker") => lsp_worker(&args[1..]),
        Some("lsp-replay") => lsp_replay(&args[1..]),
        Some("lsp-plan") => lsp_plan(&args[1..]),
        Some("lsp-shrink") => lsp_shrink(&args[1..]),
        _ => {
            eprintln!("usage: glas-sim <ide-worker|ide-replay|...> ...");
            2
        }
    };
    std::process::exit(code);
}
