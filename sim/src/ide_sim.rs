//! ide-sim: one host thread (owns the long-lived `AnalysisHost`) and reader threads on snapshots,
//! every interleaving point owned by the controller. Decides C11 and C12.
use crate::core::{Chooser, Core, Granularity, Handle, Policy, Stall, Status, Tid, CRASH_MSG};
use crate::gen::{gen_change, gen_workspace, Workspace};
use crate::hashseed;
use crate::query::{gen_query, panic_msg, run_query, QKind, QResult, Query};
use crate::rng::{mix, Rng};
use ide::verif as hooks;
use serde_json::{json, Value};
use std::collections::BTreeMap;
use std::panic::{catch_unwind, AssertUnwindSafe};
use std::sync::{Arc, Mutex};
use std::time::Duration;

#[derive(Clone, Debug)]
pub enum HostOp {
    Spawn {
        name: String,
        queries: Vec<Query>,
        hold: u32,
        crash_at: Option<u64>,
    },
    Apply {
        next: Workspace,
        kind: String,
        full: bool,
        /// Earlier texts for some files, listed in the same `Change` before the final ones
        /// (what the server builds for a didChange with several content changes).
        via: Vec<(u32, String)>,
    },
    Compare {
        queries: Vec<Query>,
    },
    Yield,
}

#[derive(Clone, Debug)]
pub struct Plan {
    pub property: String,
    pub seed: u64,
    pub run: u64,
    pub hash_seed: u64,
    pub gran: Granularity,
    pub lru: usize,
    pub policy: String,
    pub initial: Workspace,
    pub ops: Vec<HostOp>,
    pub decisions: Option<Vec<String>>,
    /// Readers run on OS threads that are reused within the run when idle (as a server's worker
    /// pool does): whatever a query leaves behind on its thread is there for the next one.
    pub reuse_threads: bool,
}

impl Plan {
    pub fn to_json(&self) -> Value {
        json!({
            "property": self.property, "engine": "ide-sim", "seed": self.seed, "run": self.run,
            "hash_seed": self.hash_seed,
            "knobs": {"granularity": self.gran.name(), "lru": self.lru, "policy": self.policy, "reuse_threads": self.reuse_threads},
            "initial": self.initial.to_json(),
            "workload": self.ops.iter().map(|op| match op {
                HostOp::Spawn{name, queries, hold, crash_at} => json!({"op":"spawn","name":name,
                    "queries": queries.iter().map(|q| q.to_json()).collect::<Vec<_>>(), "hold": hold, "crash_at": crash_at}),
                HostOp::Apply{next, kind, full, via} => json!({"op":"apply","kind":kind,"full":full,"next":next.to_json(),
                    "via": via.iter().map(|(f, t)| json!([f, t])).collect::<Vec<_>>()}),
                HostOp::Compare{queries} => json!({"op":"compare","queries": queries.iter().map(|q| q.to_json()).collect::<Vec<_>>()}),
                HostOp::Yield => json!({"op":"yield"}),
            }).collect::<Vec<_>>(),
            "decisions": self.decisions,
        })
    }

    pub fn from_json(v: &Value) -> Plan {
        let qs = |v: &Value| -> Vec<Query> {
            v.as_array()
                .map(|a| a.iter().map(Query::from_json).collect())
                .unwrap_or_default()
        };
        Plan {
            property: v["property"].as_str().unwrap_or("C12").to_string(),
            seed: v["seed"].as_u64().unwrap_or(0),
            run: v["run"].as_u64().unwrap_or(0),
            hash_seed: v["hash_seed"].as_u64().unwrap_or(0),
            gran: Granularity::parse(v["knobs"]["granularity"].as_str().unwrap_or("all")),
            lru: v["knobs"]["lru"].as_u64().unwrap_or(128) as usize,
            policy: v["knobs"]["policy"].as_str().unwrap_or("").to_string(),
            initial: Workspace::from_json(&v["initial"]),
            ops: v["workload"]
                .as_array()
                .unwrap()
                .iter()
                .map(|o| match o["op"].as_str().unwrap() {
                    "spawn" => HostOp::Spawn {
                        name: o["name"].as_str().unwrap().to_string(),
                        queries: qs(&o["queries"]),
                        hold: o["hold"].as_u64().unwrap_or(0) as u32,
                        crash_at: o["crash_at"].as_u64(),
                    },
                    "apply" => HostOp::Apply {
                        next: Workspace::from_json(&o["next"]),
                        kind: o["kind"].as_str().unwrap_or("").to_string(),
                        full: o["full"].as_bool().unwrap_or(false),
                        via: o["via"].as_array().map_or(Vec::new(), |a| {
                            a.iter().map(|e| (e[0].as_u64().unwrap_or(0) as u32, e[1].as_str().unwrap_or("").to_string())).collect()
                        }),
                    },
                    "compare" => HostOp::Compare {
                        queries: qs(&o["queries"]),
                    },
                    _ => HostOp::Yield,
                })
                .collect(),
            decisions: v["decisions"].as_array().map(|a| {
                a.iter()
                    .map(|s| s.as_str().unwrap_or("").to_string())
                    .collect()
            }),
            reuse_threads: v["knobs"]["reuse_threads"].as_bool().unwrap_or(false),
        }
    }
}

fn draw_gran(rng: &mut Rng, fine_bias: bool) -> Granularity {
    let r = rng.below(20);
    if fine_bias {
        match r {
            0..=6 => Granularity::All,
            7..=11 => Granularity::CheckOnly,
            12..=14 => Granularity::EveryK(3),
            15..=16 => Granularity::EveryK(7),
            _ => Granularity::Coarse,
        }
    } else {
        match r {
            0..=1 => Granularity::All,
            2..=6 => Granularity::CheckOnly,
            7..=9 => Granularity::EveryK(7),
            _ => Granularity::Coarse,
        }
    }
}

fn draw_queries(rng: &mut Rng, w: &Workspace, lo: usize, hi: usize, pool: &mut Vec<Query>) -> Vec<Query> {
    let n = rng.range(lo, hi);
    let mut v = Vec::new();
    for _ in 0..n {
        // Re-ask an earlier question now and then: that is what exercises memo reuse.
        if !pool.is_empty() && rng.chance(1, 3) {
            let q = rng.pick(pool).clone();
            if w.module_files().contains(&q.file) {
                let len = w.files[&q.file].1.len() as u32;
                if q.pos <= len && w.files[&q.file].1.is_char_boundary(q.pos as usize) {
                    v.push(q);
                    continue;
                }
            }
        }
        if let Some(q) = gen_query(rng, w) {
            pool.push(q.clone());
            v.push(q);
        }
    }
    v
}

/// `f0` calls `f1` calls ... `f<n>`, which returns an Int or a String.
fn chain_module(n: usize, string: bool) -> String {
    let mut s = String::new();
    for k in 0..n {
        s += &format!("pub fn f{k}() {{\n  f{}()\n}}\n\n", k + 1);
    }
    s += &format!("pub fn f{n}() {{\n  {}\n}}\n", if string { "\"x\"" } else { "1" });
    s
}

/// Now and then a change lists a file more than once: earlier texts first, the final text last.
fn gen_via(rng: &mut Rng, cur: &Workspace, next: &Workspace) -> Vec<(u32, String)> {
    if !rng.chance(1, 5) {
        return Vec::new();
    }
    let mods: Vec<u32> = cur.module_files().into_iter().filter(|f| next.files.contains_key(f)).collect();
    if mods.is_empty() {
        return Vec::new();
    }
    let mut via = Vec::new();
    for _ in 0..rng.range(1, 2) {
        let f = *rng.pick(&mods);
        let text = match rng.below(3) {
            0 => String::new(),
            1 => crate::gen::gen_module(rng, &[]).0,
            _ => crate::gen::mutate(rng, &cur.files[&f].1).0,
        };
        via.push((f, text));
    }
    via
}

pub fn gen_plan(property: &str, seed: u64, run: u64, thorough: bool) -> Plan {
    let run_seed = mix(mix(seed, run), if property == "C11" { 11 } else { 12 });
    let mut rng = Rng::new(run_seed);
    let c11 = property == "C11";
    let fine = !c11 || (thorough && rng.chance(1, 3));
    let gran = draw_gran(&mut rng, fine);
    let lru = if c11 {
        *rng.pick(&[128, 0, 3, 3, 4, 4])
    } else {
        *rng.pick(&[128, 128, 128, 3, 4, 0])
    };
    let policy = Policy::draw(&mut rng.clone(), 200).name();
    let hash_seed = rng.next();
    let mut initial = gen_workspace(&mut rng);
    // One C12 run in a hundred is a marathon: hundreds of rounds of one or two short readers on
    // reused threads, each interrupted by the next change - what a worker thread of a server goes
    // through in an afternoon. Its first module is a long call chain whose last function flips
    // its type with every change, so that every reader re-infers the whole chain, nested as
    // deep as the chain is long, and the cancellation arrives somewhere inside.
    let mut marathon = !c11 && rng.chance(1, if thorough { 60 } else { 100 });
    let mut chain: Option<(u32, usize)> = None;
    if marathon {
        match initial.module_files().first().copied() {
            Some(f) => {
                let n = rng.range(8, 36);
                initial.files.get_mut(&f).unwrap().1 = chain_module(n, false);
                chain = Some((f, n));
            }
            None => marathon = false,
        }
    }
    // a marathon is pointless unless readers can be interrupted inside their queries
    let gran = if marathon { *rng.pick(&[Granularity::All, Granularity::All, Granularity::CheckOnly, Granularity::EveryK(3)]) } else { gran };
    let mut cur = initial.clone();
    let mut ops = Vec::new();
    let mut pool: Vec<Query> = Vec::new();
    let mut reader_no = 0;
    let mut chain_reader_no = 0;
    let mut spawn = |rng: &mut Rng, cur: &Workspace, ops: &mut Vec<HostOp>, pool: &mut Vec<Query>, max_q: usize| {
        reader_no += 1;
        let queries = draw_queries(rng, cur, 1, max_q, pool);
        ops.push(HostOp::Spawn {
            name: format!("R{reader_no}"),
            queries,
            hold: if rng.chance(1, 4) { rng.range(1, 3) as u32 } else { 0 },
            crash_at: if rng.chance(1, 7) {
                Some(rng.range(1, 80) as u64)
            } else {
                None
            },
        });
    };
    if c11 {
        let nchanges = rng.range(1, if thorough { 20 } else { 8 });
        if rng.chance(1, 2) {
            ops.push(HostOp::Compare {
                queries: draw_queries(&mut rng, &cur, 2, 10, &mut pool),
            });
        }
        for _ in 0..nchanges {
            // queries "asked in between": some finish, some are interrupted by the change
            for _ in 0..*rng.pick(&[0, 0, 1, 1, 2]) {
                spawn(&mut rng, &cur, &mut ops, &mut pool, 4);
            }
            let step = gen_change(&mut rng, &cur);
            let via = gen_via(&mut rng, &cur, &step.next);
            ops.push(HostOp::Apply {
                next: step.next.clone(),
                kind: step.kind.to_string(),
                full: rng.chance(1, 10),
                via,
            });
            cur = step.next;
            if rng.chance(3, 4) {
                ops.push(HostOp::Compare {
                    queries: draw_queries(&mut rng, &cur, 2, 14, &mut pool),
                });
            }
        }
        ops.push(HostOp::Compare {
            queries: draw_queries(&mut rng, &cur, 4, 16, &mut pool),
        });
    } else {
        let rounds = if marathon { rng.range(120, if thorough { 400 } else { 260 }) } else { rng.range(1, if thorough { 6 } else { 4 }) };
        let mut flipped = false;
        for _ in 0..rounds {
            for _ in 0..(if marathon { rng.range(1, 2) } else { rng.range(1, if thorough { 6 } else { 4 }) }) {
                if let Some((f, _)) = chain {
                    if !cur.module_files().contains(&f) {
                        chain = None;
                    }
                }
                match chain {
                    Some((f, n)) if rng.chance(3, 4) => {
                        // ask for the type of a function near the head of the chain
                        let k = rng.below(n.min(4));
                        let text = &cur.files[&f].1;
                        let pos = text.find(&format!("fn f{k}(")).map_or(0, |i| i + 3) as u32;
                        chain_reader_no += 1;
                        ops.push(HostOp::Spawn {
                            name: format!("M{chain_reader_no}"),
                            queries: vec![Query { kind: if rng.chance(3, 4) { QKind::Hover } else { QKind::SignatureHelp }, file: f, pos }],
                            hold: 0,
                            crash_at: None,
                        });
                    }
                    _ => spawn(&mut rng, &cur, &mut ops, &mut pool, 5),
                }
                if rng.chance(1, 3) {
                    ops.push(HostOp::Yield);
                }
            }
            if let (Some((f, n)), true) = (chain, rng.chance(5, 6)) {
                // the writer dawdles for a while, so that the change finds the readers anywhere
                // between the head and the end of the chain
                for _ in 0..rng.range(0, 4 * n) {
                    ops.push(HostOp::Yield);
                }
                flipped = !flipped;
                let mut next = cur.clone();
                next.files.get_mut(&f).unwrap().1 = chain_module(n, flipped);
                ops.push(HostOp::Apply { next: next.clone(), kind: "edit.flip_type_at_chain_end".into(), full: false, via: Vec::new() });
                cur = next;
                continue;
            }
            let step = gen_change(&mut rng, &cur);
            let via = gen_via(&mut rng, &cur, &step.next);
            ops.push(HostOp::Apply {
                next: step.next.clone(),
                kind: step.kind.to_string(),
                full: rng.chance(1, 10),
                via,
            });
            cur = step.next;
        }
        // snapshots taken afterwards must see the new workspace
        for _ in 0..rng.range(1, 2) {
            spawn(&mut rng, &cur, &mut ops, &mut pool, 4);
        }
    }
    Plan {
        property: property.to_string(),
        seed,
        run,
        hash_seed,
        gran,
        lru,
        policy,
        initial,
        ops,
        decisions: None,
        reuse_threads: !c11 && (marathon || rng.chance(1, 2)),
    }
}

#[derive(Clone, Debug)]
pub struct ReaderRec {
    pub reader: String,
    pub version: usize,
    pub query: Query,
    pub result: QResult,
    pub cancel_ok: bool,
    pub crashed: bool,
    pub waited_on: Vec<String>,
    /// Scheduler steps at the begin and at the end of the query.
    pub span: (u64, u64),
}

#[derive(Clone, Debug)]
pub struct CompareRec {
    pub version: usize,
    pub results: Vec<(Query, QResult)>,
}

#[derive(Default)]
struct Shared {
    readers: Vec<ReaderRec>,
    compares: Vec<CompareRec>,
    joins: Vec<std::thread::JoinHandle<()>>,
    host_panic: Option<String>,
}

#[derive(Clone, Debug)]
pub struct Violation {
    pub oracle: String,
    pub kinds: Vec<String>,
    pub detail: String,
}

impl Violation {
    pub fn signature(&self) -> String {
        format!("{}|{}", self.oracle, self.kinds.join(","))
    }
    pub fn to_json(&self) -> Value {
        json!({"oracle": self.oracle, "kinds": self.kinds, "detail": self.detail, "signature": self.signature()})
    }
}

#[derive(Default, Clone, Debug)]
pub struct RunStats {
    pub steps: u64,
    pub contended: u64,
    pub trace_hash: u64,
    pub log_hash: u64,
    pub reader_results: u64,
    pub cancelled: u64,
    pub answers_checked: u64,
    pub compares: u64,
    pub compared_queries: u64,
    pub excluded_sequential_panic: u64,
    pub cancelled_by_peer_panic: u64,
    pub compare_skipped: u64,
    pub order_only_diffs: u64,
    pub fresh_ab_disagree: u64,
    pub degraded_free_run: bool,
    pub faults: BTreeMap<String, u64>,
    pub probes: BTreeMap<String, u64>,
    pub change_kinds: BTreeMap<String, u64>,
    pub max_steps_to_cancel: u32,
    pub max_apply_steps: u64,
    pub replay_misses: u64,
    pub nontrivial: bool,
}

pub struct Outcome {
    pub violation: Option<Violation>,
    pub harness_error: Option<String>,
    pub stats: RunStats,
    pub decisions: Vec<String>,
    pub log: Option<Vec<String>>,
    /// Threads are stuck for good; the process must not run anything else.
    pub poisoned: bool,
}

/// Answers of a newly started analysis for `ws`, queried sequentially in the given order, on a
/// fresh thread with its own hash keys.
pub fn fresh_answers(ws: &Workspace, queries: &[Query], domain: u64) -> Vec<QResult> {
    let ws = ws.clone();
    let queries = queries.to_vec();
    std::thread::Builder::new()
        .stack_size(16 << 20)
        .spawn(move || {
            hashseed::set_domain(domain);
            let mut host = ide::AnalysisHost::default();
            let applied = catch_unwind(AssertUnwindSafe(|| host.apply_change(ws.full_change())));
            if let Err(p) = applied {
                let m = panic_msg(p);
                return queries
                    .iter()
                    .map(|_| QResult::Panic(format!("apply: {m}")))
                    .collect();
            }
            let snap = host.snapshot();
            queries.iter().map(|q| run_query(&snap, q)).collect()
        })
        .unwrap()
        .join()
        .unwrap()
}

/// Cancellation checks a reader may pass inside one query while a change is pending (one is the
/// norm: the check it was parked at; the rest is slack).
const K_CANCEL_STEPS: u32 = 3;
const MAX_STEPS: u64 = 2_000_000;

pub fn run_plan(plan: &Plan, keep_log: bool) -> Outcome {
    hashseed::set_run_hash_seed(plan.hash_seed);
    let core = Core::new(plan.gran, keep_log);
    hooks::install(Some(Arc::new(Handle(core.clone()))));
    let shared = Arc::new(Mutex::new(Shared::default()));
    let versions: Arc<Vec<Workspace>> = Arc::new({
        let mut v = vec![plan.initial.clone()];
        for op in &plan.ops {
            if let HostOp::Apply { next, .. } = op {
                v.push(next.clone());
            }
        }
        v
    });

    let run_seed = mix(mix(plan.seed, plan.run), 0x5C4ED);
    let mut rng = Rng::new(run_seed);
    let mut chooser = Chooser {
        policy: Policy::draw(&mut rng, 200),
        rng: rng.fork(1),
        replay: plan.decisions.clone(),
        cursor: 0,
        last: None,
        replay_misses: 0,
    };

    // ---- host thread
    let h = core.register("H");
    let host_join = {
        let core = core.clone();
        let shared = shared.clone();
        let plan = plan.clone();
        let versions = versions.clone();
        std::thread::Builder::new()
            .name("H".into())
            .stack_size(16 << 20)
            .spawn(move || {
                hashseed::set_domain(1);
                let _ident = hooks::enter(core.ident(h));
                let r = catch_unwind(AssertUnwindSafe(|| host_main(&core, &plan, &versions, &shared)));
                if let Err(p) = r {
                    let m = panic_msg(p);
                    core.record_panic(h, m.clone());
                    shared.lock().unwrap().host_panic = Some(m);
                }
                drop(_ident);
                core.mark_done(h);
            })
            .unwrap()
    };

    // ---- controller loop
    let mut violation: Option<Violation> = None;
    let mut harness_error = None;
    let mut degraded = false;
    let mut poisoned = false;
    loop {
        let mut st = match core.wait_settled() {
            Ok(st) => st,
            Err(Stall::Watchdog(msg)) => {
                core.free_run();
                if core.wait_all_done(Duration::from_secs(30)) {
                    degraded = true;
                } else {
                    poisoned = true;
                    violation = Some(Violation {
                        oracle: "liveness.no_deadlock".into(),
                        kinds: vec!["deadlock.free_run_confirmed".into()],
                        detail: format!("{msg}; still stuck with every hook passing through"),
                    });
                }
                break;
            }
        };
        if st.all_done() {
            break;
        }
        let enabled = st.enabled_threads();
        if enabled.is_empty() {
            let states = st.describe();
            let live = st.live_snaps;
            drop(st);
            // Nothing can move according to the model. Only real code that stays stuck with
            // every hook passing through is a deadlock; anything else is model imprecision.
            core.free_run();
            if core.wait_all_done(Duration::from_secs(15)) {
                degraded = true;
            } else {
                poisoned = true;
                violation = Some(Violation {
                    oracle: "liveness.no_deadlock".into(),
                    kinds: vec!["deadlock.free_run_confirmed".into()],
                    detail: format!("nothing enabled, live snapshots {live}: {states}; still stuck with every hook passing through"),
                });
            }
            break;
        }
        if st.step >= MAX_STEPS {
            drop(st);
            violation = Some(Violation {
                oracle: "liveness.bounded_steps".into(),
                kinds: vec!["step_budget".into()],
                detail: format!("no termination within {MAX_STEPS} scheduler steps"),
            });
            core.free_run();
            poisoned = !core.wait_all_done(Duration::from_secs(10));
            break;
        }
        let labels: Vec<String> = enabled.iter().map(|t| st.threads[t].name.clone()).collect();
        let i = chooser.choose(st.step, &labels);
        Core::record_decision(&mut st, &labels[i], labels.len());
        if let Err(e) = core.release(st, enabled[i]) {
            violation = Some(Violation {
                oracle: "liveness.cancel_before_write".into(),
                kinds: vec!["apply.no_cancellation".into()],
                detail: e,
            });
            core.free_run();
            poisoned = !core.wait_all_done(Duration::from_secs(10));
            break;
        }
    }
    hooks::install(None);
    if !poisoned {
        let _ = host_join.join();
        let joins = std::mem::take(&mut shared.lock().unwrap().joins);
        for j in joins {
            let _ = j.join();
        }
    }

    // ---- statistics
    let mut stats = RunStats::default();
    let (decisions, log) = {
        let mut st = core.lock();
        stats.steps = st.step;
        stats.contended = st.contended;
        stats.trace_hash = st.trace_hash.0;
        stats.log_hash = st.log_digest();
        stats.max_steps_to_cancel = st.probes.max_steps_to_cancel;
        stats.max_apply_steps = st.probes.max_apply_steps;
        let p = st.probes.clone();
        for (k, v) in [
            ("write_while_reader_in_query", p.write_while_in_query),
            ("write_pending_rounds", p.write_pending_rounds),
            ("reader_blocked_on_reader", p.reader_blocked_on_reader),
            ("crash_while_peer_blocked", p.crash_while_peer_blocked),
            ("cancel_observed_at_check", p.cancelled_at_check),
            ("reader_blocked_in_validation_window", p.block_silent_window),
            ("os_level_blocked_detected", p.os_blocked),
        ] {
            stats.probes.insert(k.into(), v);
        }
        for k in &p.keys_seen_at_write {
            *stats.probes.entry(format!("write_arrived_inside:{k}")).or_insert(0) += 1;
        }
        stats.faults.insert("query_crash".into(), p.crash_fired);
        stats.faults.insert("write_pending".into(), p.write_pending_rounds);
        if plan.lru != 128 {
            stats.faults.insert("lru_pressure".into(), 1);
        }
        stats.faults.insert("hash_seed".into(), 1);
        stats.replay_misses = chooser.replay_misses;
        (std::mem::take(&mut st.decisions), st.log.take())
    };
    stats.degraded_free_run = degraded;
    for op in &plan.ops {
        if let HostOp::Apply { kind, via, .. } = op {
            *stats.change_kinds.entry(kind.clone()).or_insert(0) += 1;
            if !via.is_empty() {
                *stats.change_kinds.entry("batch.same_file_twice".into()).or_insert(0) += 1;
            }
        }
    }

    // ---- oracles over the recorded history
    let sh = std::mem::take(&mut *shared.lock().unwrap());
    if violation.is_none() && !degraded {
        if let Some(m) = &sh.host_panic {
            // The host only applies generator-made changes and asks queries inside catch_unwind.
            harness_error = Some(format!("host thread panicked: {m}"));
        }
    }
    if violation.is_none() && !degraded && harness_error.is_none() {
        violation = check_history(plan, &versions, &sh, &mut stats);
        if violation.is_none() && stats.max_steps_to_cancel > K_CANCEL_STEPS {
            violation = Some(Violation {
                oracle: "liveness.prompt_cancellation".into(),
                kinds: vec!["reader.slow_cancel".into()],
                detail: format!(
                    "a reader passed {} cancellation checks inside one query while a change was pending (bound {K_CANCEL_STEPS})",
                    stats.max_steps_to_cancel
                ),
            });
        }
    }
    stats.nontrivial = stats.contended > 0
        && (stats.probes.get("write_pending_rounds").copied().unwrap_or(0) > 0 || stats.compares > 0);
    Outcome {
        violation,
        harness_error,
        stats,
        decisions,
        log,
        poisoned,
    }
}

fn host_main(core: &Arc<Core>, plan: &Plan, versions: &Arc<Vec<Workspace>>, shared: &Arc<Mutex<Shared>>) {
    hooks::named("host:start");
    let mut host = ide::AnalysisHost::default();
    if plan.lru != 128 {
        host.verif_set_parse_lru_capacity(plan.lru);
    }
    host.apply_change(plan.initial.full_change());
    let mut version = 0usize;
    let mut reader_ord = 0u64;
    let mut workers: Vec<(std::sync::mpsc::Sender<Box<dyn FnOnce() + Send>>, Tid)> = Vec::new();
    for op in &plan.ops {
        hooks::named("host:op");
        match op {
            HostOp::Yield => {}
            HostOp::Apply { next, full, via, .. } => {
                let change = next.change_from_via(&versions[version], *full, via);
                host.apply_change(change);
                version += 1;
            }
            HostOp::Compare { queries } => {
                let snap = host.snapshot();
                let results = queries
                    .iter()
                    .map(|q| (q.clone(), run_query(&snap, q)))
                    .collect();
                drop(snap);
                shared
                    .lock()
                    .unwrap()
                    .compares
                    .push(CompareRec { version, results });
            }
            HostOp::Spawn {
                name,
                queries,
                hold,
                crash_at,
            } => {
                let snap = host.snapshot();
                let tid = core.register(name);
                if let Some(c) = crash_at {
                    core.with(|st| st.threads.get_mut(&tid).unwrap().crash_at = Some(*c));
                }
                reader_ord += 1;
                let job: Box<dyn FnOnce() + Send> = {
                    let core = core.clone();
                    let shared = shared.clone();
                    let (name, queries, hold) = (name.clone(), queries.clone(), *hold);
                    let domain = 100 + reader_ord;
                    Box::new(move || {
                        hashseed::set_domain(domain);
                        let _ident = hooks::enter(core.ident(tid));
                        reader_main(&core, tid, &name, version, snap, &queries, hold, &shared);
                        drop(_ident);
                        core.mark_done(tid);
                    })
                };
                // an idle worker of this run (lowest index first: a function of the simulated
                // state only), else a new OS thread
                let idle = if plan.reuse_threads {
                    workers.iter().position(|(_, t)| core.with(|st| st.threads.get(t).map_or(true, |th| th.status == Status::Done)))
                } else {
                    None
                };
                match idle {
                    Some(i) => {
                        workers[i].1 = tid;
                        let _ = workers[i].0.send(job);
                    }
                    None => {
                        let (tx, rx) = std::sync::mpsc::channel::<Box<dyn FnOnce() + Send>>();
                        let j = std::thread::Builder::new()
                            .name(name.clone())
                            .stack_size(16 << 20)
                            .spawn(move || {
                                while let Ok(job) = rx.recv() {
                                    job();
                                }
                            })
                            .unwrap();
                        let _ = tx.send(job);
                        workers.push((tx, tid));
                        shared.lock().unwrap().joins.push(j);
                    }
                }
            }
        }
    }
}

#[allow(clippy::too_many_arguments)]
fn reader_main(
    core: &Arc<Core>,
    tid: Tid,
    name: &str,
    version: usize,
    snap: ide::Analysis,
    queries: &[Query],
    hold: u32,
    shared: &Arc<Mutex<Shared>>,
) {
    hooks::named("reader:start");
    for q in queries {
        let result = run_query(&snap, q);
        let (cancel_ok, crashed, waited_on, span) = core.with(|st| {
            let now = st.step;
            let t = st.threads.get_mut(&tid).unwrap();
            let (c, k, w, b) = (t.cancel_ok, std::mem::take(&mut t.crashed), t.waited_on.clone(), t.query_begin_step);
            (c, k, w.iter().map(|p| if *p == 0 { "?".to_string() } else { st.name(*p) }).collect::<Vec<_>>(), (b, now))
        });
        let cancelled = result == QResult::Cancelled;
        shared.lock().unwrap().readers.push(ReaderRec {
            reader: name.to_string(),
            version,
            query: q.clone(),
            result,
            cancel_ok,
            crashed,
            waited_on,
            span,
        });
        if cancelled {
            // As every glas handler does via `?`: give the snapshot back at once.
            break;
        }
    }
    for _ in 0..hold {
        hooks::named("reader:hold");
    }
    drop(snap);
}

fn check_history(plan: &Plan, versions: &[Workspace], sh: &Shared, stats: &mut RunStats) -> Option<Violation> {
    // --- C12-style: every reader result against a fresh sequential instance for its version
    let mut by_version: BTreeMap<usize, Vec<Query>> = BTreeMap::new();
    for r in &sh.readers {
        stats.reader_results += 1;
        match &r.result {
            QResult::Cancelled => stats.cancelled += 1,
            _ => by_version.entry(r.version).or_default().push(r.query.clone()),
        }
    }
    let mut expected: BTreeMap<(usize, Query), QResult> = BTreeMap::new();
    for (v, qs) in &mut by_version {
        qs.sort();
        qs.dedup();
        let ans = fresh_answers(&versions[*v], qs, 1000 + *v as u64);
        for (q, a) in qs.iter().zip(ans) {
            expected.insert((*v, q.clone()), a);
        }
    }
    // Which cancellations are justified? Fixpoint over "overlaps in time with an unwinding peer".
    let overlaps = |a: &ReaderRec, b: &ReaderRec| a.reader != b.reader && a.span.0 <= b.span.1 && b.span.0 <= a.span.1;
    let host_panicked = sh.compares.iter().any(|c| c.results.iter().any(|(_, x)| matches!(x, QResult::Panic(_))));
    let mut justified_cancellations: std::collections::BTreeSet<usize> = std::collections::BTreeSet::new();
    for (i, r) in sh.readers.iter().enumerate() {
        if r.result == QResult::Cancelled
            && (r.cancel_ok || host_panicked || sh.readers.iter().any(|o| matches!(o.result, QResult::Panic(_)) && overlaps(o, r)))
        {
            justified_cancellations.insert(i);
        }
    }
    loop {
        let mut grew = false;
        for (i, r) in sh.readers.iter().enumerate() {
            if r.result == QResult::Cancelled
                && !justified_cancellations.contains(&i)
                && justified_cancellations.iter().any(|j| overlaps(&sh.readers[*j], r))
            {
                justified_cancellations.insert(i);
                grew = true;
            }
        }
        if !grew {
            break;
        }
    }
    for (ri, r) in sh.readers.iter().enumerate() {
        let kind_tag = format!("query.{:?}", r.query.kind);
        match &r.result {
            QResult::Cancelled => {
                // salsa: "If the other thread panics, we treat this as cancellation" - and a
                // thread that unwinds because it was cancelled itself counts just the same for
                // whoever waits for one of its queries. A waiter need not have been seen waiting
                // (the event-less wait in maybe_changed_since), so overlap in time is the
                // criterion; the justification must bottom out in a pending change or a panic.
                let peer_panicked = justified_cancellations.contains(&ri);
                if peer_panicked && !r.cancel_ok {
                    stats.cancelled_by_peer_panic += 1;
                }
                if !r.cancel_ok && !peer_panicked {
                    return Some(Violation {
                        oracle: "snapshot.cancel_only_when_write_pending".into(),
                        kinds: vec![kind_tag],
                        detail: format!(
                            "{} got Cancelled for {:?} on its snapshot of version {} although no change was pending during the query",
                            r.reader, r.query, r.version
                        ),
                    });
                }
            }
            QResult::Panic(m) if r.crashed && m == CRASH_MSG => {}
            got => {
                let want = &expected[&(r.version, r.query.clone())];
                stats.answers_checked += 1;
                if matches!(want, QResult::Panic(_)) {
                    // The sequential answer is itself a panic: an input problem (C10), and
                    // whether the long-lived instance panics too is C11's question.
                    stats.excluded_sequential_panic += 1;
                    if plan.property == "C11" && !matches!(got, QResult::Panic(_)) {
                        return Some(Violation {
                            oracle: "snapshot.answer_equals_own_version".into(),
                            kinds: vec![kind_tag, "ref.panics".into()],
                            detail: format!(
                                "{} answered {:?} on version {} with {} where a fresh instance panics: {}",
                                r.reader, r.query, r.version, got.short(), want.short()
                            ),
                        });
                    }
                    continue;
                }
                if !got.same_answer(want) {
                    // A difference that a second fresh instance (other hash keys) also shows
                    // against the first is an unstable oracle (C11's department), not isolation.
                    // Can a newly started analysis give this very answer under other hash keys or
                    // another query order? Then the reference itself is unstable: a determinism
                    // defect (C11), not a failure of snapshot isolation.
                    let mut unstable = None;
                    for k in 0..6u64 {
                        let mut qs = vec![r.query.clone()];
                        if k % 2 == 1 {
                            // the reader's own order up to and including this query
                            qs = sh
                                .readers
                                .iter()
                                .filter(|o| o.reader == r.reader)
                                .map(|o| o.query.clone())
                                .collect();
                        }
                        let alt = fresh_answers(&versions[r.version], &qs, 5000 + 97 * k + r.version as u64);
                        let idx = qs.iter().rposition(|q| *q == r.query).unwrap();
                        if !alt[idx].same_answer(want) {
                            unstable = Some(alt[idx].clone());
                            if alt[idx].same_answer(got) {
                                break;
                            }
                        }
                    }
                    if let Some(alt) = unstable {
                        stats.fresh_ab_disagree += 1;
                        if plan.property == "C12" {
                            continue;
                        }
                        return Some(Violation {
                            oracle: "determinism.fresh_instances_agree".into(),
                            kinds: vec![kind_tag, diff_class(want, &alt)],
                            detail: format!(
                                "workspace version {}, {:?}: fresh instances (different hash keys / query order) disagree: {} vs {}",
                                r.version, r.query, want.short(), alt.short()
                            ),
                        });
                    }
                    let oracle = if matches!(got, QResult::Panic(_)) {
                        "snapshot.no_panic"
                    } else {
                        "snapshot.answer_equals_own_version"
                    };
                    // Does it match another version? That is the "mixture" the property forbids.
                    let mut kinds = vec![kind_tag, diff_class(want, got)];
                    for (v, w) in versions.iter().enumerate() {
                        if v != r.version && w.files.contains_key(&r.query.file) {
                            let other = fresh_answers(w, &[r.query.clone()], 1000 + v as u64);
                            if got.same_answer(&other[0]) {
                                kinds.push("matches_other_version".into());
                                break;
                            }
                        }
                    }
                    return Some(Violation {
                        oracle: oracle.into(),
                        kinds,
                        detail: format!(
                            "{} on snapshot of version {} asked {:?}: got {} expected {}",
                            r.reader, r.version, r.query, got.short(), want.short()
                        ),
                    });
                }
                if got.order_differs(want) {
                    stats.order_only_diffs += 1;
                }
            }
        }
    }

    // --- C11-style: long-lived instance vs fresh (a) and fresh (b, other keys, other order)
    for c in &sh.compares {
        stats.compares += 1;
        let qs: Vec<Query> = c.results.iter().map(|(q, _)| q.clone()).collect();
        let a = fresh_answers(&versions[c.version], &qs, 2000 + c.version as u64);
        let mut order: Vec<usize> = (0..qs.len()).collect();
        let mut r = Rng::new(mix(plan.hash_seed, c.version as u64));
        r.shuffle(&mut order);
        let shuffled: Vec<Query> = order.iter().map(|i| qs[*i].clone()).collect();
        let b_shuf = fresh_answers(&versions[c.version], &shuffled, 3000 + c.version as u64);
        let mut b = vec![QResult::Cancelled; qs.len()];
        for (k, i) in order.iter().enumerate() {
            b[*i] = b_shuf[k].clone();
        }
        for (i, (q, l)) in c.results.iter().enumerate() {
            stats.compared_queries += 1;
            let kind_tag = format!("query.{:?}", q.kind);
            if *l == QResult::Cancelled {
                // The host is the writer; only a panicking peer it waited for can cancel it.
                let any_peer_panic = sh.readers.iter().any(|o| matches!(o.result, QResult::Panic(_)));
                if any_peer_panic {
                    stats.compare_skipped += 1;
                    continue;
                }
            }
            if matches!(a[i], QResult::Panic(_)) && matches!(b[i], QResult::Panic(_)) {
                stats.excluded_sequential_panic += 1;
                // (a cycle that two threads run into together makes one of them panic and hands
                // the other one `Cancelled`: for an input problem both are "no answer")
                if !matches!(l, QResult::Panic(_) | QResult::Cancelled) {
                    return Some(Violation {
                        oracle: "history.equals_fresh".into(),
                        kinds: vec![kind_tag, "ref.panics".into()],
                        detail: format!(
                            "after {} changes {:?}: long-lived instance answers {} where fresh instances panic ({})",
                            c.version, q, l.short(), a[i].short()
                        ),
                    });
                }
                continue;
            }
            if !a[i].same_answer(&b[i]) {
                stats.fresh_ab_disagree += 1;
                return Some(Violation {
                    oracle: "determinism.fresh_instances_agree".into(),
                    kinds: vec![kind_tag, diff_class(&a[i], &b[i])],
                    detail: format!(
                        "workspace after {} changes, {:?}: two fresh instances (different hash keys / query order) disagree: {} vs {}",
                        c.version, q, a[i].short(), b[i].short()
                    ),
                });
            }
            if !l.same_answer(&a[i]) {
                let mut kinds = vec![kind_tag, diff_class(&a[i], l)];
                if c.version > 0 {
                    if let Some(HostOp::Apply { kind, via, .. }) = plan
                        .ops
                        .iter()
                        .filter(|o| matches!(o, HostOp::Apply { .. }))
                        .nth(c.version - 1)
                    {
                        kinds.push(format!("after.{kind}"));
                        if !via.is_empty() {
                            kinds.push("batch.same_file_twice".into());
                        }
                    }
                }
                return Some(Violation {
                    oracle: "history.equals_fresh".into(),
                    kinds,
                    detail: format!(
                        "after {} changes {:?}: long-lived {} vs fresh {}",
                        c.version, q, l.short(), a[i].short()
                    ),
                });
            }
            if l.order_differs(&a[i]) || a[i].order_differs(&b[i]) {
                stats.order_only_diffs += 1;
            }
        }
    }
    None
}

#[allow(dead_code)]
pub fn status_name(s: &Status) -> &'static str {
    match s {
        Status::New => "new",
        Status::Unstarted => "unstarted",
        Status::Running => "running",
        Status::Parked => "parked",
        Status::BlockedOnSnapshots => "blocked-on-snapshots",
        Status::BlockedReal => "blocked-real",
        Status::Done => "done",
    }
}

/// Shrink a failing plan while the same violation signature persists (DESIGN §2.6).
pub fn shrink(plan: &Plan, signature: &str, budget: Duration) -> (Plan, u32) {
    let t0 = std::time::Instant::now();
    let mut tries = 0u32;
    let mut fails = |p: &Plan, tries: &mut u32| -> Option<Vec<String>> {
        *tries += 1;
        let o = run_plan(p, false);
        if o.poisoned {
            // Cannot continue in this process.
            return None;
        }
        match &o.violation {
            Some(v) if v.signature() == signature => Some(o.decisions),
            _ => None,
        }
    };
    let mut best = plan.clone();
    // make sure it fails at all under replay, and adopt the recorded decisions
    match fails(&best, &mut tries) {
        Some(d) => best.decisions = Some(d),
        None => return (best, tries),
    }
    let mut progress = true;
    while progress && t0.elapsed() < budget {
        progress = false;
        // 1. drop whole operations, last first
        let mut i = best.ops.len();
        while i > 0 && t0.elapsed() < budget {
            i -= 1;
            let mut cand = best.clone();
            cand.ops.remove(i);
            if let Some(d) = fails(&cand, &mut tries) {
                cand.decisions = Some(d);
                best = cand;
                progress = true;
            }
        }
        // 2. simplify operations
        for i in 0..best.ops.len() {
            if t0.elapsed() >= budget {
                break;
            }
            match best.ops[i].clone() {
                HostOp::Spawn { name, queries, hold, crash_at } => {
                    let mut qs = queries.clone();
                    let mut k = qs.len();
                    while k > 0 && qs.len() > 1 {
                        k -= 1;
                        let mut q2 = qs.clone();
                        q2.remove(k);
                        let mut cand = best.clone();
                        cand.ops[i] = HostOp::Spawn { name: name.clone(), queries: q2.clone(), hold, crash_at };
                        if let Some(d) = fails(&cand, &mut tries) {
                            cand.decisions = Some(d);
                            best = cand;
                            qs = q2;
                            progress = true;
                        }
                    }
                    for (h, c) in [(0, crash_at), (hold, None), (0, None)] {
                        if (h, c) == (hold, crash_at) {
                            continue;
                        }
                        let mut cand = best.clone();
                        cand.ops[i] = HostOp::Spawn { name: name.clone(), queries: qs.clone(), hold: h, crash_at: c };
                        if let Some(d) = fails(&cand, &mut tries) {
                            cand.decisions = Some(d);
                            best = cand;
                            progress = true;
                            break;
                        }
                    }
                }
                HostOp::Compare { queries } if queries.len() > 1 => {
                    let mut qs = queries.clone();
                    let mut k = qs.len();
                    while k > 0 && qs.len() > 1 {
                        k -= 1;
                        let mut q2 = qs.clone();
                        q2.remove(k);
                        let mut cand = best.clone();
                        cand.ops[i] = HostOp::Compare { queries: q2.clone() };
                        if let Some(d) = fails(&cand, &mut tries) {
                            cand.decisions = Some(d);
                            best = cand;
                            qs = q2;
                            progress = true;
                        }
                    }
                }
                _ => {}
            }
        }
        // 3. knobs
        for (g, l) in [(Granularity::Coarse, 128usize), (Granularity::Coarse, best.lru), (best.gran, 128)] {
            if (g, l) == (best.gran, best.lru) {
                continue;
            }
            let mut cand = best.clone();
            cand.gran = g;
            cand.lru = l;
            cand.decisions = None;
            if let Some(d) = fails(&cand, &mut tries) {
                cand.decisions = Some(d);
                best = cand;
                progress = true;
                break;
            }
        }
        // 4. drop files nobody needs from every version
        let ids: Vec<u32> = best.initial.files.keys().copied().collect();
        for id in ids.into_iter().rev() {
            if t0.elapsed() >= budget {
                break;
            }
            let mut cand = best.clone();
            let strip = |w: &mut Workspace| {
                if w.pkgs.iter().any(|p| p.toml == id) {
                    return false;
                }
                w.files.remove(&id);
                for r in &mut w.roots {
                    r.files.retain(|f| *f != id);
                }
                true
            };
            let mut ok = strip(&mut cand.initial);
            for op in &mut cand.ops {
                if let HostOp::Apply { next, .. } = op {
                    ok &= strip(next);
                }
            }
            if !ok {
                continue;
            }
            if let Some(d) = fails(&cand, &mut tries) {
                cand.decisions = Some(d);
                best = cand;
                progress = true;
            }
        }
    }
    // 4b. changes that list a file once only
    for i in 0..best.ops.len() {
        if t0.elapsed() >= budget {
            break;
        }
        if matches!(&best.ops[i], HostOp::Apply { via, .. } if !via.is_empty()) {
            let mut cand = best.clone();
            if let HostOp::Apply { via, .. } = &mut cand.ops[i] {
                via.clear();
            }
            if let Some(d) = fails(&cand, &mut tries) {
                cand.decisions = Some(d);
                best = cand;
            }
        }
    }
    // 5. shortest decision prefix that still fails (default policy afterwards)
    if let Some(dec) = best.decisions.clone() {
        let mut lo = 0usize;
        let mut hi = dec.len();
        while lo < hi && t0.elapsed() < budget {
            let mid = (lo + hi) / 2;
            let mut cand = best.clone();
            cand.decisions = Some(dec[..mid].to_vec());
            if fails(&cand, &mut tries).is_some() {
                hi = mid;
            } else {
                lo = mid + 1;
            }
        }
        let mut cand = best.clone();
        cand.decisions = Some(dec[..hi].to_vec());
        if fails(&cand, &mut tries).is_some() {
            best = cand;
        }
    }
    (best, tries)
}

/// A coarse classification of how two answers differ; part of the violation signature so that a
/// recorded finding does not hide a different violation on the same kind of query.
pub fn diff_class(want: &QResult, got: &QResult) -> String {
    match (want, got) {
        (QResult::Ans { .. }, QResult::Panic(m)) | (QResult::Panic(m), QResult::Ans { .. }) => {
            if m.contains("cycle detected") {
                "diff.panic_cycle".into()
            } else {
                "diff.panic".into()
            }
        }
        (QResult::Ans { canon: a, .. }, QResult::Ans { canon: b, .. }) => {
            // identical up to the letters chosen for type variables?
            let norm = |s: &str| -> String {
                let mut out = String::new();
                let cs: Vec<char> = s.replace("\\n", "\n").chars().collect();
                for (i, c) in cs.iter().enumerate() {
                    let prev = if i > 0 { cs[i - 1] } else { ' ' };
                    let next = cs.get(i + 1).copied().unwrap_or(' ');
                    if c.is_ascii_lowercase() && !prev.is_alphanumeric() && prev != '_' && !next.is_alphanumeric() && next != '_' {
                        out.push('τ');
                    } else {
                        out.push(*c);
                    }
                }
                out
            };
            if norm(a) == norm(b) {
                "diff.typevar_letters".into()
            } else if a.len() == b.len() {
                "diff.same_length".into()
            } else if (a == "None" || a == "[]" || a == "Some([])") != (b == "None" || b == "[]" || b == "Some([])") {
                "diff.empty_vs_nonempty".into()
            } else {
                "diff.content".into()
            }
        }
        (QResult::Cancelled, _) | (_, QResult::Cancelled) => "diff.cancelled".into(),
        _ => "diff.other".into(),
    }
}
