//! The controller: token passing over real, parked threads (DESIGN §2.1, §2.2, Appendix B).
//!
//! Exactly one simulated thread runs at any instant. A thread reports at a yield point through
//! `ide::verif::Controller::at`, parks on the shared condvar and is released by the controller
//! thread, which draws every decision from the run's PRNG (or a replay list).
use crate::rng::{Fnv, Rng};
use ide::verif::{Controller, Note, Point, SalsaKind, SimId};
use std::cell::Cell;
use std::collections::{BTreeMap, BTreeSet};
use std::sync::{Arc, Condvar, Mutex, MutexGuard};
use std::time::{Duration, Instant};

pub type Tid = SimId;

#[derive(Clone, Debug, PartialEq, Eq)]
pub enum PKind {
    Check,
    Exec,
    Valid,
    Block,
    QueryBegin,
    QueryEnd,
    ApplyBegin,
    ApplyEnd,
    Named(&'static str),
}

impl PKind {
    pub fn is_salsa(&self) -> bool {
        matches!(self, PKind::Check | PKind::Exec | PKind::Valid | PKind::Block)
    }
    pub fn label(&self) -> &'static str {
        match self {
            PKind::Check => "salsa:check",
            PKind::Exec => "salsa:exec",
            PKind::Valid => "salsa:valid",
            PKind::Block => "salsa:block",
            PKind::QueryBegin => "query:begin",
            PKind::QueryEnd => "query:end",
            PKind::ApplyBegin => "apply:begin",
            PKind::ApplyEnd => "apply:end",
            PKind::Named(n) => n,
        }
    }
}

#[derive(Clone, Debug)]
pub struct PointInfo {
    pub kind: PKind,
    pub key: Option<String>,
    pub runtime: u64,
    pub other: Option<u64>,
    pub key_id: Option<u64>,
    pub active: Option<u64>,
}

/// R2: what a thread parked at `salsa:block` is waiting for.
#[derive(Clone, Debug, PartialEq, Eq)]
pub enum BState {
    /// The owner is executing the query (it is on the owner's query stack).
    OnStack,
    /// The owner holds the query while validating it; it will announce `valid` or `exec`.
    AwaitAnnounce,
    /// The owner said `valid`; the query completes before the owner's next report.
    AwaitNextReport,
    Resolved,
}

#[derive(Clone, Debug)]
pub struct BlockWait {
    pub owner: Tid,
    pub key_id: u64,
    pub state: BState,
}

#[derive(Clone, Debug, PartialEq, Eq)]
pub enum Status {
    /// Registered by its parent; has not reported yet.
    New,
    /// Registered, but did not show up within the grace period: whatever is to start it has not
    /// run yet (e.g. the spawn sits in a task nobody has polled). Not waited for; becomes
    /// `Parked` when it reports.
    Unstarted,
    Running,
    Parked,
    /// Writer inside salsa, waiting for every snapshot to be dropped (R1).
    BlockedOnSnapshots,
    /// Released, but observed asleep in the kernel without consuming CPU: blocked on something
    /// the model does not know (e.g. salsa's event-less wait in `maybe_changed_since`).
    BlockedReal,
    Done,
}

#[derive(Clone, Copy, Debug, PartialEq, Eq)]
pub enum Granularity {
    /// Every salsa event is a decision point.
    All,
    /// Only cancellation checks (and the non-salsa points).
    CheckOnly,
    /// Every k-th salsa event of a thread.
    EveryK(u32),
    /// No salsa event gates (except `block`, which always does).
    Coarse,
}

impl Granularity {
    pub fn name(&self) -> String {
        match self {
            Granularity::All => "all".into(),
            Granularity::CheckOnly => "check-only".into(),
            Granularity::EveryK(k) => format!("every-{k}"),
            Granularity::Coarse => "coarse".into(),
        }
    }
    pub fn parse(s: &str) -> Granularity {
        match s {
            "all" => Granularity::All,
            "check-only" => Granularity::CheckOnly,
            "coarse" => Granularity::Coarse,
            s => Granularity::EveryK(s.trim_start_matches("every-").parse().unwrap_or(4)),
        }
    }
}

#[derive(Debug)]
pub struct Th {
    pub name: String,
    pub status: Status,
    pub point: Option<PointInfo>,
    go: bool,
    /// R2: parked at `salsa:block`; enabled again when the owner has finished the query.
    pub block: Option<BlockWait>,
    /// Inferred stack of queries this thread is executing.
    pub stack: Vec<u64>,
    pub os_tid: i32,
    /// Description of the futex wait the thread was seen in when classified `BlockedReal`.
    pub blocked_in: String,
    /// Number of top-level boundaries passed (query end, vfs read, task end, exit).
    pub epoch: u64,
    pub in_query: bool,
    /// A change was pending at some point during the current / last top-level query, or a peer
    /// this thread waited for crashed: `Err(Cancelled)` is a legal answer.
    pub cancel_ok: bool,
    /// Peers this thread waited for during the current / last top-level query (`0` = unknown
    /// peer, seen only as an OS-level block). If one of them panics, salsa turns that into
    /// `Cancelled` for the waiter.
    pub waited_on: Vec<Tid>,
    pub query_begin_step: u64,
    pub salsa_events: u64,
    /// Inject a panic at this (1-based) salsa event of the thread.
    pub crash_at: Option<u64>,
    pub crashed: bool,
    /// Own scheduler steps taken while a change was pending and this thread had not yet reached
    /// the end of its query.
    pub steps_while_pending: u32,
    pub needs_epilogue: bool,
    /// Parked at `idle`: enabled only when a wake is owed.
    pub is_main: bool,
    pub gated_points: u64,
    /// Scheduler step at which the thread parked at its current point.
    pub parked_at_step: u64,
    pub registered_at: Instant,
}

impl Th {
    fn new(name: String) -> Self {
        Th {
            name,
            status: Status::New,
            point: None,
            go: false,
            block: None,
            stack: Vec::new(),
            os_tid: 0,
            blocked_in: String::new(),
            epoch: 0,
            in_query: false,
            cancel_ok: false,
            waited_on: Vec::new(),
            query_begin_step: 0,
            salsa_events: 0,
            crash_at: None,
            crashed: false,
            steps_while_pending: 0,
            needs_epilogue: false,
            is_main: false,
            gated_points: 0,
            parked_at_step: 0,
            registered_at: Instant::now(),
        }
    }
}

#[derive(Default, Debug, Clone)]
pub struct Probes {
    pub write_while_in_query: u64,
    pub write_pending_rounds: u64,
    pub reader_blocked_on_reader: u64,
    pub crash_fired: u64,
    pub crash_while_peer_blocked: u64,
    pub cancelled_at_check: u64,
    pub max_steps_to_cancel: u32,
    pub max_apply_steps: u64,
    pub keys_seen_at_write: BTreeSet<String>,
    pub os_blocked: u64,
    pub block_silent_window: u64,
    /// lsp-sim windows: the main loop stored an edit (store new, database old) while ...
    pub edit_stored_while_task_unstarted: u64,
    pub edit_stored_while_task_in_query: u64,
    /// ... and a task read the document store inside that window.
    pub store_read_inside_update_window: u64,
    /// A task finished its work while a later task for the same purpose was already done
    /// (its result reaches the main loop late).
    pub task_end_after_later_task_exit: u64,
    pub spawned_thread_not_started: u64,
}

pub struct St {
    pub threads: BTreeMap<Tid, Th>,
    next_tid: Tid,
    pub live_snaps: i64,
    pub write_pending: bool,
    pub pending_writer: Option<Tid>,
    pub write_pending_since_step: u64,
    probe: Option<ide::Analysis>,
    runtime_owner: BTreeMap<u64, Tid>,
    pub freerun: bool,
    pub gran: Granularity,
    pub want_keys: bool,
    pub step: u64,
    pub chains: BTreeMap<Tid, Fnv>,
    pub log: Option<Vec<String>>,
    pub decisions: Vec<String>,
    pub contended: u64,
    pub trace_hash: Fnv,
    pub epilogues: BTreeSet<Tid>,
    pub wake_owed: bool,
    /// Whether `disk:*` points (inside the package loader) are decision points in this run.
    pub gate_disk_points: bool,
    /// Observable activity of the main thread (hook points, transport reads and writes).
    pub m_progress: u64,
    m_progress_at_release: u64,
    /// The main thread did something since it was last released from `idle`, so a wake it
    /// sent to itself may still be pending: pump it once more.
    pub pump_again: bool,
    /// Set by the wrapper around the main loop future whenever that future is woken; cleared
    /// when it is polled. A pending wake means the main loop has work although it is about to
    /// park.
    pub root_woken: Option<Arc<std::sync::atomic::AtomicBool>>,
    /// ordinal of spawned task -> salsa event at which to inject a panic
    /// Last scheduler step at which the main thread reported each of its points.
    pub main_point_steps: BTreeMap<&'static str, u64>,
    pub task_crash_plan: BTreeMap<u64, u64>,
    pub spawned_tasks: u64,
    pub probes: Probes,
    pub point_counts: BTreeMap<&'static str, u64>,
    pub panics: Vec<(Tid, String)>,
}

impl St {
    /// `actor`: the simulated thread whose own event sequence the line belongs to, `Some(0)` for
    /// the controller's decision sequence, `None` for model bookkeeping that is not part of the
    /// digest. Each actor has its own digest chain, so two threads that legitimately run at the
    /// same time (a writer unblocked by the last snapshot drop and the dropping thread) cannot
    /// make the digest depend on who logs first.
    pub fn log(&mut self, actor: Option<Tid>, line: impl FnOnce() -> String) {
        let s = line();
        if let Some(a) = actor {
            self.chains.entry(a).or_default().write_str(&s);
        }
        if let Some(l) = &mut self.log {
            l.push(s);
        }
    }

    pub fn log_digest(&self) -> u64 {
        let mut h = Fnv::default();
        for (t, c) in &self.chains {
            h.write_u64(*t);
            h.write_u64(c.0);
        }
        h.0
    }

    pub fn name(&self, t: Tid) -> String {
        self.threads
            .get(&t)
            .map(|t| t.name.clone())
            .unwrap_or_else(|| format!("?{t}"))
    }

    pub fn by_name(&self, name: &str) -> Option<Tid> {
        self.threads
            .iter()
            .find(|(_, t)| t.name == name)
            .map(|(id, _)| *id)
    }

    fn gates(&self, who: Tid, info: &PointInfo) -> bool {
        match info.kind {
            PKind::Block => true,
            PKind::Check | PKind::Exec | PKind::Valid => match self.gran {
                Granularity::All => true,
                Granularity::CheckOnly => info.kind == PKind::Check,
                Granularity::EveryK(k) => {
                    let n = self.threads[&who].salsa_events;
                    n % (k.max(1) as u64) == 0
                }
                Granularity::Coarse => false,
            },
            // points inside the package loader (between two of its disk accesses)
            PKind::Named(n) if n.starts_with("disk:") => self.gate_disk_points,
            _ => true,
        }
    }

    pub fn is_enabled(&self, id: Tid) -> bool {
        let t = &self.threads[&id];
        if t.status != Status::Parked {
            return false;
        }
        if let Some(b) = &t.block {
            let o = &self.threads[&b.owner];
            if !(o.status == Status::Done || b.state == BState::Resolved) {
                return false;
            }
        }
        if t.is_main && matches!(&t.point, Some(p) if p.kind == PKind::Named("idle")) {
            let woken = self
                .root_woken
                .as_ref()
                .map_or(self.pump_again, |f| f.load(std::sync::atomic::Ordering::SeqCst));
            return self.wake_owed || woken;
        }
        true
    }

    pub fn enabled_threads(&self) -> Vec<Tid> {
        self.threads
            .keys()
            .copied()
            .filter(|id| self.is_enabled(*id))
            .collect()
    }

    pub fn settled(&self) -> bool {
        self.epilogues.is_empty()
            && self
                .threads
                .values()
                .all(|t| !matches!(t.status, Status::Running | Status::New))
    }

    pub fn describe(&self) -> String {
        self.threads
            .values()
            .map(|t| {
                format!(
                    "{}:{:?}@{}{}",
                    t.name,
                    t.status,
                    t.point.as_ref().map_or("-", |p| p.kind.label()),
                    match &t.block {
                        Some(b) => format!("[waits {} {:?}]", self.name(b.owner), b.state),
                        None => String::new(),
                    }
                )
            })
            .collect::<Vec<_>>()
            .join(" ")
    }

    pub fn all_done(&self) -> bool {
        self.threads.values().all(|t| t.status == Status::Done)
    }

    fn boundary(&mut self, who: Tid) {
        if let Some(t) = self.threads.get_mut(&who) {
            t.epoch += 1;
        }
    }

    /// Top-level boundary of `who`: nothing it held can still be in progress.
    fn resolve_all_waiting_on(&mut self, who: Tid) {
        for t in self.threads.values_mut() {
            if let Some(b) = &mut t.block {
                if b.owner == who {
                    b.state = BState::Resolved;
                }
            }
        }
    }

    /// Update the inferred query stack of `who` from a salsa report and advance the waits of
    /// the threads blocked on it.
    fn on_salsa_report(&mut self, who: Tid, info: &PointInfo) {
        {
            let t = self.threads.get_mut(&who).unwrap();
            match info.active {
                None => t.stack.clear(),
                Some(a) => {
                    while let Some(top) = t.stack.last() {
                        if *top == a {
                            break;
                        }
                        t.stack.pop();
                    }
                    if t.stack.is_empty() {
                        t.stack.push(a);
                    }
                }
            }
            if info.kind == PKind::Exec {
                if let Some(k) = info.key_id {
                    t.stack.push(k);
                }
            }
        }
        let stack = self.threads[&who].stack.clone();
        for t in self.threads.values_mut() {
            let Some(b) = &mut t.block else { continue };
            if b.owner != who {
                continue;
            }
            match b.state {
                BState::Resolved => {}
                BState::AwaitNextReport => b.state = BState::Resolved,
                BState::OnStack => {
                    if !stack.contains(&b.key_id) {
                        b.state = BState::Resolved;
                    }
                }
                BState::AwaitAnnounce => {
                    if info.key_id == Some(b.key_id) {
                        match info.kind {
                            PKind::Valid => b.state = BState::AwaitNextReport,
                            PKind::Exec => b.state = BState::OnStack,
                            _ => {}
                        }
                    }
                }
            }
        }
    }

    fn set_write_pending(&mut self) {
        self.write_pending = true;
        self.write_pending_since_step = self.step;
        self.probes.write_pending_rounds += 1;
        let mut any = false;
        let mut keys = Vec::new();
        for t in self.threads.values_mut() {
            t.steps_while_pending = 0;
            if t.in_query {
                t.cancel_ok = true;
                any = true;
                if let Some(PointInfo { key: Some(k), .. }) = &t.point {
                    keys.push(k.split('(').next().unwrap_or("").to_string());
                }
            }
        }
        if any {
            self.probes.write_while_in_query += 1;
        }
        self.probes.keys_seen_at_write.extend(keys);
    }
}

thread_local! {
    /// Last simulated identity that reported from this OS thread (for pool thread epilogues).
    static LAST_TID: Cell<Option<Tid>> = const { Cell::new(None) };
}

pub const CRASH_MSG: &str = "verif: injected crash";

pub struct Core {
    st: Mutex<St>,
    cv: Condvar,
    pub watchdog: Duration,
    /// Distinguishes the simulated threads of this run from threads an earlier run of the same
    /// process may have left behind (they carry the same small local numbers).
    epoch: u64,
}

static EPOCH: std::sync::atomic::AtomicU64 = std::sync::atomic::AtomicU64::new(1);

#[derive(Debug)]
pub enum Stall {
    /// The running thread did not report within the watchdog bound.
    Watchdog(String),
}

impl Core {
    pub fn new(gran: Granularity, keep_log: bool) -> Arc<Core> {
        Arc::new(Core {
            st: Mutex::new(St {
                threads: BTreeMap::new(),
                next_tid: 1,
                live_snaps: 0,
                write_pending: false,
                pending_writer: None,
                write_pending_since_step: 0,
                probe: None,
                runtime_owner: BTreeMap::new(),
                freerun: false,
                gran,
                want_keys: keep_log,
                step: 0,
                chains: BTreeMap::new(),
                log: if keep_log { Some(Vec::new()) } else { None },
                decisions: Vec::new(),
                contended: 0,
                trace_hash: Fnv::default(),
                epilogues: BTreeSet::new(),
                wake_owed: false,
                gate_disk_points: false,
                m_progress: 0,
                m_progress_at_release: u64::MAX,
                pump_again: false,
                root_woken: None,
                main_point_steps: BTreeMap::new(),
                task_crash_plan: BTreeMap::new(),
                spawned_tasks: 0,
                probes: Probes::default(),
                point_counts: BTreeMap::new(),
                panics: Vec::new(),
            }),
            cv: Condvar::new(),
            epoch: EPOCH.fetch_add(1, std::sync::atomic::Ordering::SeqCst),
            watchdog: Duration::from_secs(
                std::env::var("VERIF_WATCHDOG_S")
                    .ok()
                    .and_then(|s| s.parse().ok())
                    .unwrap_or(20),
            ),
        })
    }

    /// The identity to hand to `ide::verif::enter` for the local thread number `t`.
    pub fn ident(&self, t: Tid) -> SimId {
        (self.epoch << 32) | t
    }

    fn local(&self, who: SimId) -> Option<Tid> {
        if who >> 32 == self.epoch {
            Some(who & 0xffff_ffff)
        } else {
            None
        }
    }

    pub fn lock(&self) -> MutexGuard<'_, St> {
        self.st.lock().unwrap_or_else(|e| e.into_inner())
    }

    /// Register a simulated thread that the caller is about to start.
    pub fn register(&self, name: &str) -> Tid {
        let mut st = self.lock();
        let id = st.next_tid;
        st.next_tid += 1;
        st.threads.insert(id, Th::new(name.to_string()));
        id
    }

    pub fn with<R>(&self, f: impl FnOnce(&mut St) -> R) -> R {
        f(&mut self.lock())
    }

    /// Harness-side record of a caught panic on a simulated thread.
    pub fn record_panic(&self, who: Tid, msg: String) {
        let mut st = self.lock();
        st.log(Some(who), || format!("{} panic {}", who, first_line(&msg)));
        st.panics.push((who, msg));
    }

    /// The pool thread that ran `tid` has finished everything it does after the task returned.
    pub fn epilogue_done(&self, tid: Tid) {
        let mut st = self.lock();
        if st.epilogues.remove(&tid) {
            st.wake_owed = true;
            self.cv.notify_all();
        }
    }

    /// Transport activity of the main thread (bytes read or written).
    pub fn note_io(&self) {
        self.lock().m_progress += 1;
    }

    /// To be called from the pool's `on_thread_stop`.
    pub fn os_thread_stopping(&self) {
        if let Some(t) = LAST_TID.with(|l| l.take()) {
            self.epilogue_done(t);
        }
    }

    /// Wait until no simulated thread is running.
    pub fn wait_settled(&self) -> Result<MutexGuard<'_, St>, Stall> {
        let mut st = self.lock();
        let deadline = Instant::now() + self.watchdog;
        let mut poll = Duration::from_micros(300);
        // tid -> (futex wait descriptor at first observation, when, observations)
        let mut sleepy: BTreeMap<Tid, (String, Instant, u32)> = BTreeMap::new();
        let own = (self as *const Core as usize, self as *const Core as usize + std::mem::size_of::<Core>());
        loop {
            // A thread we believed blocked may have been woken by the last step.
            let blocked: Vec<(Tid, i32, String)> = st
                .threads
                .iter()
                .filter(|(_, t)| t.status == Status::BlockedReal)
                .map(|(id, t)| (*id, t.os_tid, t.blocked_in.clone()))
                .collect();
            for (id, os, was) in blocked {
                if foreign_futex_wait(os, own).as_deref() != Some(was.as_str()) {
                    st.threads.get_mut(&id).unwrap().status = Status::Running;
                    st.log(None, || format!("{id} os-unblocked"));
                }
            }
            if st.settled() {
                break;
            }
            let now = Instant::now();
            if now >= deadline {
                let who = st
                    .threads
                    .iter()
                    .filter(|(_, t)| matches!(t.status, Status::Running | Status::New))
                    .map(|(_, t)| format!("{}:{:?}", t.name, t.status))
                    .collect::<Vec<_>>()
                    .join(",");
                let ep = st.epilogues.len();
                return Err(Stall::Watchdog(format!(
                    "no report within {:?} from [{who}] (epilogues pending: {ep})",
                    self.watchdog
                )));
            }
            let (g, to) = self
                .cv
                .wait_timeout(st, poll.min(deadline - now))
                .unwrap_or_else(|e| e.into_inner());
            st = g;
            if !to.timed_out() {
                continue;
            }
            poll = (poll * 2).min(Duration::from_millis(2));
            // A registered thread that does not show up is not going to just because we wait.
            let now2 = Instant::now();
            let late: Vec<Tid> = st
                .threads
                .iter()
                .filter(|(_, t)| t.status == Status::New && now2.duration_since(t.registered_at) > Duration::from_millis(1000))
                .map(|(id, _)| *id)
                .collect();
            for id in late {
                st.threads.get_mut(&id).unwrap().status = Status::Unstarted;
                st.probes.spawned_thread_not_started += 1;
                st.log(None, || format!("{id} unstarted"));
            }
            // Nobody reported for a while: is the running thread asleep in a futex wait that is
            // not one of the simulator's own locks? (Waiting for a child process, the disk or
            // the CPU is not blocking on a peer.)
            let running: Vec<(Tid, i32)> = st
                .threads
                .iter()
                .filter(|(_, t)| t.status == Status::Running && t.os_tid != 0)
                .map(|(id, t)| (*id, t.os_tid))
                .collect();
            for (id, os) in running {
                match foreign_futex_wait(os, own) {
                    Some(desc) => {
                        let e = sleepy.entry(id).or_insert((desc.clone(), Instant::now(), 0));
                        if e.0 != desc {
                            *e = (desc, Instant::now(), 0);
                        } else {
                            e.2 += 1;
                            if e.2 >= 5 && e.1.elapsed() >= Duration::from_millis(8) {
                                let t = st.threads.get_mut(&id).unwrap();
                                t.status = Status::BlockedReal;
                                t.blocked_in = desc;
                                t.waited_on.push(0);
                                st.probes.os_blocked += 1;
                                st.log(None, || format!("{id} os-blocked"));
                                sleepy.remove(&id);
                            }
                        }
                    }
                    None => {
                        sleepy.remove(&id);
                    }
                }
            }
        }
        Ok(st)
    }

    /// Record a decision taken among `n_enabled` alternatives.
    pub fn record_decision(st: &mut St, label: &str, n_enabled: usize) {
        st.step += 1;
        if n_enabled >= 2 {
            st.contended += 1;
            st.trace_hash.write_str(label);
        }
        st.decisions.push(label.to_string());
        st.log(Some(0), || format!("> {label} /{n_enabled}"));
    }

    /// Release a parked thread. Handles the R1 hand-over when the thread is a writer at
    /// `apply:begin` and snapshots are alive. Returns an error text if the writer never made its
    /// cancellation request visible.
    pub fn release(&self, mut st: MutexGuard<'_, St>, id: Tid) -> Result<(), String> {
        let pending = st.write_pending;
        let probe = {
            let live = st.live_snaps;
            let is_apply = matches!(&st.threads[&id].point, Some(p) if p.kind == PKind::ApplyBegin);
            if is_apply && live > 0 {
                st.probe.take()
            } else {
                if is_apply {
                    st.probe = None;
                }
                None
            }
        };
        if st.threads[&id].is_main && matches!(&st.threads[&id].point, Some(p) if p.kind == PKind::Named("idle")) {
            st.wake_owed = false;
            st.pump_again = false;
            st.m_progress_at_release = st.m_progress;
        }
        {
            let t = st.threads.get_mut(&id).unwrap();
            debug_assert_eq!(t.status, Status::Parked);
            t.status = Status::Running;
            t.go = true;
            t.block = None;
            t.gated_points += 1;
            // Only cancellation checks count: a reader released from `salsa:check` while a change
            // is pending reads the flag next and must unwind. Validating memoised values
            // (`salsa:valid`, no check in between) is bounded by the depth of the dependency
            // chain, not by a constant, and is not "ignoring the change".
            if pending && t.in_query && matches!(&t.point, Some(p) if p.kind == PKind::Check) {
                t.steps_while_pending += 1;
                let s = t.steps_while_pending;
                if s > st.probes.max_steps_to_cancel {
                    st.probes.max_steps_to_cancel = s;
                }
            }
        }
        self.cv.notify_all();
        let Some(probe) = probe else {
            return Ok(());
        };
        drop(st);
        // R1: the writer is now running towards salsa's write lock, which it cannot get while the
        // probe (and the readers' snapshots) are alive. Wait for the monotone condition
        // "cancellation flag visible", then account the writer as blocked.
        let t0 = Instant::now();
        let mut spins = 0u64;
        while !probe.verif_is_cancelled() {
            spins += 1;
            if spins % 64 == 0 {
                std::thread::yield_now();
                // A change that needs no write (nothing to set) goes straight through without
                // asking anybody to stop; the writer is then already at its next point.
                let st = self.lock();
                if st.threads[&id].status != Status::Running {
                    drop(st);
                    drop(probe);
                    return Ok(());
                }
            }
            if t0.elapsed() > self.watchdog {
                drop(probe);
                return Err("writer released from apply:begin neither requested cancellation nor came back".into());
            }
        }
        drop(probe);
        let mut st = self.lock();
        if st.live_snaps > 0 {
            st.threads.get_mut(&id).unwrap().status = Status::BlockedOnSnapshots;
            st.set_write_pending();
            st.pending_writer = Some(id);
            st.log(None, || format!("{id} blocked-on-snapshots"));
        }
        self.cv.notify_all();
        Ok(())
    }

    /// Stop gating: every hook becomes pass-through, every parked thread is released.
    pub fn free_run(&self) {
        let mut st = self.lock();
        st.freerun = true;
        st.probe = None;
        for t in st.threads.values_mut() {
            if t.status == Status::Parked {
                t.go = true;
                t.status = Status::Running;
            }
        }
        self.cv.notify_all();
    }

    /// After `free_run`: wait until every registered thread is done.
    pub fn wait_all_done(&self, timeout: Duration) -> bool {
        let mut st = self.lock();
        let deadline = Instant::now() + timeout;
        while !st.all_done() {
            let now = Instant::now();
            if now >= deadline {
                return false;
            }
            st = self
                .cv
                .wait_timeout(st, deadline - now)
                .unwrap_or_else(|e| e.into_inner())
                .0;
        }
        true
    }

    pub fn mark_done(&self, who: Tid) {
        let mut st = self.lock();
        Self::exit_locked(&mut st, who);
        self.cv.notify_all();
    }

    fn exit_locked(st: &mut St, who: Tid) {
        let needs = match st.threads.get_mut(&who) {
            Some(t) => {
                if t.status == Status::Done {
                    return;
                }
                t.status = Status::Done;
                t.epoch += 1;
                t.in_query = false;
                t.stack.clear();
                t.needs_epilogue
            }
            None => return,
        };
        st.resolve_all_waiting_on(who);
        if needs && !st.freerun {
            st.epilogues.insert(who);
        }
        st.log(Some(who), || format!("{who} exit"));
    }
}

fn first_line(s: &str) -> &str {
    s.lines().next().unwrap_or("")
}

/// The object installed into `ide::verif`.
pub struct Handle(pub Arc<Core>);

impl Controller for Handle {
    fn at(&self, who: SimId, p: Point<'_>) {
        let core = &*self.0;
        let Some(who) = core.local(who) else { return };
        let mut st = core.lock();
        if st.freerun || !st.threads.contains_key(&who) {
            return;
        }
        // A writer that was waiting for the snapshots reports again: the write itself is over
        // (whatever the writer goes on to do before `apply:end` - e.g. warm caches on a snapshot
        // of its own - happens in the new revision and is not "inside a pending change").
        if st.write_pending && st.pending_writer == Some(who) {
            st.pending_writer = None;
            let d = st.step - st.write_pending_since_step;
            if d > st.probes.max_apply_steps {
                st.probes.max_apply_steps = d;
            }
            st.write_pending = false;
        }
        let want_keys = st.want_keys;
        let mut make_probe = None;
        let info = match p {
            Point::Salsa {
                kind,
                runtime,
                other,
                key,
                key_id,
                active,
            } => PointInfo {
                kind: match kind {
                    SalsaKind::Check => PKind::Check,
                    SalsaKind::Exec => PKind::Exec,
                    SalsaKind::Valid => PKind::Valid,
                    SalsaKind::Block => PKind::Block,
                },
                key: if want_keys || kind == SalsaKind::Block {
                    key.map(|k| format!("{k:?}"))
                } else {
                    None
                },
                runtime,
                other,
                key_id,
                active,
            },
            Point::QueryBegin => simple(PKind::QueryBegin),
            Point::QueryEnd => simple(PKind::QueryEnd),
            Point::ApplyBegin { make_probe: mp } => {
                make_probe = Some(mp);
                simple(PKind::ApplyBegin)
            }
            Point::ApplyEnd => simple(PKind::ApplyEnd),
            Point::Named(n) => simple(PKind::Named(n)),
        };
        let prev = LAST_TID.with(|l| l.replace(Some(who)));
        if info.kind == PKind::Named("task:start") {
            if let Some(prev) = prev {
                if prev != who && st.epilogues.remove(&prev) {
                    st.wake_owed = true;
                }
            }
        }
        *st.point_counts.entry(info.kind.label()).or_insert(0) += 1;
        if st.threads[&who].is_main {
            if info.kind == PKind::Named("idle") {
                st.pump_again = st.m_progress != st.m_progress_at_release;
            } else {
                st.m_progress += 1;
            }
        }

        // Bookkeeping that does not depend on gating.
        let mut crash = false;
        if st.threads[&who].os_tid == 0 {
            st.threads.get_mut(&who).unwrap().os_tid = unsafe { libc::syscall(libc::SYS_gettid) } as i32;
        }
        if st.threads[&who].status == Status::BlockedReal {
            st.threads.get_mut(&who).unwrap().status = Status::Running;
        }
        if info.kind.is_salsa() {
            st.runtime_owner.insert(info.runtime, who);
            st.on_salsa_report(who, &info);
            let t = st.threads.get_mut(&who).unwrap();
            t.salsa_events += 1;
            if t.crash_at == Some(t.salsa_events) && info.kind != PKind::Block {
                t.crashed = true;
                crash = true;
            }
        }
        match info.kind {
            PKind::QueryBegin => {
                let pending = st.write_pending;
                let step_now = st.step;
                let t = st.threads.get_mut(&who).unwrap();
                t.in_query = true;
                t.cancel_ok = pending;
                t.waited_on.clear();
                t.query_begin_step = step_now;
                t.steps_while_pending = 0;
            }
            PKind::QueryEnd => {
                let t = st.threads.get_mut(&who).unwrap();
                t.in_query = false;
                t.stack.clear();
                st.boundary(who);
                st.resolve_all_waiting_on(who);
            }
            PKind::Named("vfs:read") | PKind::Named("task:end") => {
                st.boundary(who);
                let main_in_window = st.threads.values().any(|t| {
                    t.is_main
                        && t.status == Status::Parked
                        && matches!(&t.point, Some(p) if matches!(p.kind, PKind::Named("didchange:vfs_updated") | PKind::Named("open:vfs_updated")))
                });
                if info.kind == PKind::Named("vfs:read") && main_in_window {
                    st.probes.store_read_inside_update_window += 1;
                }
                if info.kind == PKind::Named("task:end") && st.threads.iter().any(|(id, t)| *id > who && !t.is_main && t.status == Status::Done) {
                    st.probes.task_end_after_later_task_exit += 1;
                }
            }
            PKind::Named("didchange:vfs_updated") | PKind::Named("open:vfs_updated") => {
                let unstarted = st.threads.values().any(|t| {
                    t.status == Status::Parked && matches!(&t.point, Some(p) if p.kind == PKind::Named("task:start"))
                });
                let in_query = st.threads.values().any(|t| !t.is_main && t.in_query);
                if unstarted {
                    st.probes.edit_stored_while_task_unstarted += 1;
                }
                if in_query {
                    st.probes.edit_stored_while_task_in_query += 1;
                }
            }
            PKind::ApplyBegin => {
                if st.live_snaps > 0 {
                    if let Some(mp) = make_probe.take() {
                        st.probe = Some(mp());
                    }
                }
            }
            PKind::ApplyEnd => {
                let d = st.step - st.write_pending_since_step;
                if st.write_pending {
                    if d > st.probes.max_apply_steps {
                        st.probes.max_apply_steps = d;
                    }
                    st.write_pending = false;
                }
            }
            PKind::Check => {
                if st.write_pending {
                    st.probes.cancelled_at_check += 1;
                }
            }
            _ => {}
        }

        let gate = st.gates(who, &info);
        if !gate {
            if crash {
                Self::note_crash(&mut st, who);
                drop(st);
                std::panic::panic_any(CRASH_MSG);
            }
            return;
        }

        // R2: remember whom we are about to wait for.
        if info.kind == PKind::Block {
            if let (Some(owner), Some(key_id)) = (
                info.other.and_then(|r| st.runtime_owner.get(&r).copied()),
                info.key_id,
            ) {
                if owner != who {
                    let on_stack = st.threads[&owner].stack.contains(&key_id);
                    if !on_stack {
                        st.probes.block_silent_window += 1;
                    }
                    st.threads.get_mut(&who).unwrap().waited_on.push(owner);
                    st.threads.get_mut(&who).unwrap().block = Some(BlockWait {
                        owner,
                        key_id,
                        state: if on_stack { BState::OnStack } else { BState::AwaitAnnounce },
                    });
                    st.probes.reader_blocked_on_reader += 1;
                }
            }
        }
        st.log(Some(who), || match &info.key {
            Some(k) => format!("{who} {} {k}", info.kind.label()),
            None => format!("{who} {}", info.kind.label()),
        });
        {
            let step = st.step;
            if st.threads[&who].is_main {
                st.main_point_steps.insert(info.kind.label(), step);
            }
            let t = st.threads.get_mut(&who).unwrap();
            t.status = Status::Parked;
            t.point = Some(info);
            t.parked_at_step = step;
        }
        core.cv.notify_all();
        loop {
            if st.freerun {
                return;
            }
            if st.threads[&who].go {
                break;
            }
            st = core.cv.wait(st).unwrap_or_else(|e| e.into_inner());
        }
        let t = st.threads.get_mut(&who).unwrap();
        t.go = false;
        t.point = None;
        if crash {
            Self::note_crash(&mut st, who);
            drop(st);
            std::panic::panic_any(CRASH_MSG);
        }
    }

    fn note(&self, who: Option<SimId>, n: Note) {
        let core = &*self.0;
        let who = match who {
            Some(w) => match core.local(w) {
                Some(l) => Some(l),
                // a thread of another run: snapshot counts are still ours (the guard reports
                // to the controller that counted it), the identity is not
                None => match n {
                    Note::Exit => return,
                    _ => None,
                },
            },
            None => None,
        };
        let mut st = core.lock();
        match n {
            Note::SnapshotTaken => {
                st.live_snaps += 1;
            }
            Note::SnapshotDropped => {
                st.live_snaps -= 1;
                if st.live_snaps == 0 {
                    let blocked: Vec<Tid> = st
                        .threads
                        .iter()
                        .filter(|(_, t)| t.status == Status::BlockedOnSnapshots)
                        .map(|(id, _)| *id)
                        .collect();
                    for id in blocked {
                        st.threads.get_mut(&id).unwrap().status = Status::Running;
                        st.log(None, || format!("{id} unblocked"));
                    }
                }
            }
            Note::Exit => {
                if let Some(who) = who {
                    Core::exit_locked(&mut st, who);
                }
            }
        }
        core.cv.notify_all();
    }

    fn spawn(&self, parent: SimId) -> SimId {
        let core = &*self.0;
        let Some(parent) = core.local(parent) else { return parent };
        let mut st = core.lock();
        let id = st.next_tid;
        st.next_tid += 1;
        let mut th = Th::new(format!("t{id}"));
        th.needs_epilogue = true;
        st.spawned_tasks += 1;
        let ord = st.spawned_tasks;
        th.crash_at = st.task_crash_plan.get(&ord).copied();
        if st.freerun {
            th.status = Status::Done;
        }
        st.threads.insert(id, th);
        st.log(Some(parent), || format!("{parent} spawn {id}"));
        core.ident(id)
    }
}

impl Handle {
    fn note_crash(st: &mut St, who: Tid) {
        st.probes.crash_fired += 1;
        let blocked_on_me = st
            .threads
            .values()
            .any(|t| matches!(&t.block, Some(b) if b.owner == who));
        if blocked_on_me {
            st.probes.crash_while_peer_blocked += 1;
        }
        // Whoever waits (or may be waiting without an event) for a query of the crashing thread
        // is entitled to `Cancelled`.
        for t in st.threads.values_mut() {
            if matches!(&t.block, Some(b) if b.owner == who) || t.status == Status::BlockedReal {
                t.cancel_ok = true;
            }
        }
        st.log(Some(who), || format!("{who} crash-injected"));
    }
}

fn simple(kind: PKind) -> PointInfo {
    PointInfo {
        kind,
        key: None,
        runtime: 0,
        other: None,
        key_id: None,
        active: None,
    }
}

/// If the OS thread sleeps in a futex wait on an address outside `own` (the simulator's own
/// mutex and condvar live there), a description of that wait (address, stack pointer, pc) that
/// stays the same as long as the thread has not been woken; `None` otherwise.
fn foreign_futex_wait(tid: i32, own: (usize, usize)) -> Option<String> {
    let stat = std::fs::read_to_string(format!("/proc/self/task/{tid}/stat")).ok()?;
    let state = stat[stat.rfind(')')? + 1..].trim_start().chars().next()?;
    if state != 'S' {
        return None;
    }
    let sc = std::fs::read_to_string(format!("/proc/self/task/{tid}/syscall")).ok()?;
    let mut it = sc.split_whitespace();
    let nr = it.next()?;
    if nr == "257" || nr == "2" {
        // asleep inside open(2): a FIFO nobody writes to (regular files and directories on the
        // scratch tmpfs never sleep there)
        return Some(sc.trim().to_string());
    }
    if nr != "202" {
        return None;
    }
    let uaddr = usize::from_str_radix(it.next()?.trim_start_matches("0x"), 16).ok()?;
    if uaddr >= own.0 && uaddr < own.1 {
        return None;
    }
    Some(sc.trim().to_string())
}

/// How the next action is chosen among the enabled ones when not replaying.
#[derive(Clone, Debug)]
pub enum Policy {
    Uniform,
    /// Keep the previously chosen label with probability num/den.
    Stay { num: u32, den: u32 },
    /// PCT-style: random priority per label, highest runs; at the change points the label that
    /// would run is demoted below everything else.
    Prio {
        prios: BTreeMap<String, u64>,
        change_points: BTreeSet<u64>,
        low: u64,
    },
}

impl Policy {
    pub fn draw(rng: &mut Rng, max_steps: u64) -> Policy {
        match rng.below(4) {
            0 => Policy::Uniform,
            1 | 2 => Policy::Stay {
                num: *rng.pick(&[1, 3, 7, 9]),
                den: 10,
            },
            _ => {
                let d = rng.range(1, 4);
                let horizon = max_steps.clamp(20, 400) as usize;
                let change_points = (0..d).map(|_| rng.below(horizon) as u64).collect();
                Policy::Prio {
                    prios: BTreeMap::new(),
                    change_points,
                    low: u64::MAX / 2,
                }
            }
        }
    }

    pub fn name(&self) -> String {
        match self {
            Policy::Uniform => "uniform".into(),
            Policy::Stay { num, den } => format!("stay-{num}/{den}"),
            Policy::Prio { change_points, .. } => format!("pct-d{}", change_points.len()),
        }
    }

    pub fn choose(&mut self, rng: &mut Rng, step: u64, last: Option<&str>, enabled: &[String]) -> usize {
        debug_assert!(!enabled.is_empty());
        match self {
            Policy::Uniform => rng.below(enabled.len()),
            Policy::Stay { num, den } => {
                if let Some(l) = last {
                    if let Some(i) = enabled.iter().position(|e| e == l) {
                        if rng.chance(*num, *den) {
                            return i;
                        }
                    }
                }
                rng.below(enabled.len())
            }
            Policy::Prio {
                prios,
                change_points,
                low,
            } => {
                for e in enabled {
                    if !prios.contains_key(e) {
                        let p = u64::MAX / 2 + 1 + (rng.next() >> 2);
                        prios.insert(e.clone(), p);
                    }
                }
                let best = |prios: &BTreeMap<String, u64>| {
                    (0..enabled.len())
                        .max_by_key(|&i| (prios[&enabled[i]], std::cmp::Reverse(i)))
                        .unwrap()
                };
                let mut i = best(prios);
                if change_points.remove(&step) {
                    *low -= 1;
                    prios.insert(enabled[i].clone(), *low);
                    i = best(prios);
                }
                i
            }
        }
    }
}

/// Chooses the next action: from the replay list while it lasts and fits, else by policy.
pub struct Chooser {
    pub rng: Rng,
    pub policy: Policy,
    pub replay: Option<Vec<String>>,
    pub cursor: usize,
    pub last: Option<String>,
    pub replay_misses: u64,
}

impl Chooser {
    pub fn choose(&mut self, step: u64, enabled: &[String]) -> usize {
        let i = 'pick: {
            if let Some(list) = &self.replay {
                while self.cursor < list.len() {
                    let want = &list[self.cursor];
                    self.cursor += 1;
                    if let Some(i) = enabled.iter().position(|e| e == want) {
                        break 'pick i;
                    }
                    self.replay_misses += 1;
                }
                // Exhausted (or shrunk away): fixed default policy.
                break 'pick 0;
            }
            self.policy
                .choose(&mut self.rng, step, self.last.as_deref(), enabled)
        };
        self.last = Some(enabled[i].clone());
        i
    }
}
