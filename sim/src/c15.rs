//! C15 — no message sequence can take the server down; an edit it cannot apply is dropped (and
//! the document forgotten), never applied somewhere else.
use crate::c13::gen_text;
use crate::core::Granularity;
use crate::gen::gen_module;
use crate::ide_sim::Violation;
use crate::lsp::{preamble, scratch_root, uri_for, DiskOp, DocModel, Edit, Ev, History, Op, PlannedOp, Session};
use crate::lspcheck;
use crate::rng::{mix, Rng};
use serde_json::json;
use std::collections::{BTreeMap, BTreeSet};

pub const REQ_METHODS: &[&str] = &[
    "textDocument/hover",
    "textDocument/definition",
    "textDocument/completion",
    "textDocument/documentHighlight",
    "textDocument/references",
    "textDocument/prepareRename",
    "textDocument/rename",
    "textDocument/signatureHelp",
    "glas/syntaxTree",
    "textDocument/semanticTokens/full",
    "textDocument/semanticTokens/range",
    "textDocument/formatting",
];

pub fn request(id: i64, method: &str, uri: &str, pos: [u32; 2], rng: &mut Rng) -> Op {
    let extra = match method {
        "textDocument/rename" => json!({"newName": "renamed_x"}),
        "textDocument/semanticTokens/range" => {
            let a = pos;
            let b = [pos[0] + rng.below(3) as u32, rng.below(20) as u32];
            json!({"range": {"start": {"line": a[0], "character": a[1]}, "end": {"line": b[0], "character": b[1]}}})
        }
        _ => json!({}),
    };
    Op::Request { id, method: method.to_string(), uri: uri.to_string(), pos, extra }
}

fn project_tree(rng: &mut Rng) -> (Vec<(String, String)>, Vec<String>) {
    let mut tree = Vec::new();
    let with_dep = rng.chance(2, 3);
    let mut toml = "name = \"proj\"\n".to_string();
    if with_dep {
        toml += "\n[dependencies]\ndep = \"~> 1.0\"\n";
        tree.push(("build/packages/dep/gleam.toml".to_string(), "name = \"dep\"\n".to_string()));
        let (d, _) = gen_module(rng, &[]);
        tree.push(("build/packages/dep/src/d.gleam".to_string(), d));
    }
    tree.push(("gleam.toml".to_string(), toml));
    let (a, sa) = gen_module(rng, &[]);
    let (b, _) = gen_module(rng, &[("a".to_string(), sa)]);
    tree.push(("src/a.gleam".to_string(), a));
    tree.push(("src/b.gleam".to_string(), b));
    let (t, _) = gen_module(rng, &[]);
    tree.push(("test/t.gleam".to_string(), t));
    let docs = vec!["src/a.gleam".to_string(), "src/b.gleam".to_string(), "test/t.gleam".to_string()];
    (tree, docs)
}

/// A content change with an invalid position, drawn from the grammar of DESIGN §4.
fn invalid_edit(rng: &mut Rng, m: &DocModel) -> (Edit, &'static str) {
    let last = m.line_count() - 1;
    let text = if rng.chance(1, 3) { String::new() } else { gen_text(rng, 4) };
    let valid = m.random_pos(rng);
    match rng.below(9) {
        0 => {
            // line one past the end, both ends
            let c = rng.below(3) as u32;
            (Edit { range: Some([last + 1, c, last + 1, c]), text }, "didChange.line.past_end_by_one")
        }
        1 => {
            let l = *rng.pick(&[last + 2, last + 100, 1 << 20, u32::MAX, u32::MAX - 1]);
            (Edit { range: Some([l, 0, l, 0]), text }, "didChange.line.huge")
        }
        2 => {
            // end line beyond, start valid
            (Edit { range: Some([valid[0], valid[1], last + 1 + rng.below(3) as u32, 0]), text }, "didChange.end_line.past_end")
        }
        3 => {
            // column one past the end of the line: legal by clamping
            let l = rng.below(m.line_count() as usize) as u32;
            let c = m.line_len16(l) + 1 + rng.below(3) as u32;
            (Edit { range: Some([l, c, l, c]), text }, "didChange.column.past_line_end")
        }
        4 => {
            let l = rng.below(m.line_count() as usize) as u32;
            let c = *rng.pick(&[1u32 << 16, 1 << 31, u32::MAX]);
            (Edit { range: Some([l, 0, l, c]), text }, "didChange.column.huge")
        }
        5 => {
            // start > end
            let a = m.random_pos(rng);
            let b = m.random_pos(rng);
            let (lo, hi) = if (a[0], a[1]) <= (b[0], b[1]) { (a, b) } else { (b, a) };
            if lo == hi {
                (Edit { range: Some([hi[0], hi[1] + 1, lo[0], lo[1]]), text }, "didChange.range.reversed")
            } else {
                (Edit { range: Some([hi[0], hi[1], lo[0], lo[1]]), text }, "didChange.range.reversed")
            }
        }
        6 => {
            // column inside a surrogate pair, if the document has one
            for (li, (s, e, _)) in m.lines().iter().enumerate() {
                let mut units = 0u32;
                for c in m.text[*s..*e].chars() {
                    if c.len_utf16() == 2 {
                        let col = units + 1;
                        return (
                            Edit { range: Some([li as u32, col, li as u32, col]), text },
                            "didChange.column.mid_surrogate",
                        );
                    }
                    units += c.len_utf16() as u32;
                }
            }
            (Edit { range: Some([last + 1, 0, last + 1, 0]), text }, "didChange.line.past_end_by_one")
        }
        7 => {
            // end inside a surrogate pair
            for (li, (s, e, _)) in m.lines().iter().enumerate() {
                let mut units = 0u32;
                for c in m.text[*s..*e].chars() {
                    if c.len_utf16() == 2 {
                        return (
                            Edit { range: Some([li as u32, 0, li as u32, units + 1]), text },
                            "didChange.end_column.mid_surrogate",
                        );
                    }
                    units += c.len_utf16() as u32;
                }
            }
            (Edit { range: Some([0, 0, last + 3, 0]), text }, "didChange.end_line.past_end")
        }
        _ => {
            // reversed across the whole document
            (Edit { range: Some([last, m.line_len16(last), 0, 0]), text }, "didChange.range.reversed")
        }
    }
}

const ODD_URIS: &[(&str, &str)] = &[
    ("untitled:Untitled-1", "uri.untitled"),
    ("http://example.com/x.gleam", "uri.http"),
    ("file:///nonexistent-glas-sim/c15/never_opened.gleam", "uri.unknown_file"),
    ("inmemory://model/1", "uri.inmemory"),
    ("file://host.example/share/x.gleam", "uri.file_with_host"),
];

pub fn gen_session(seed: u64, run: u64, thorough: bool) -> Session {
    let mut rng = Rng::new(mix(mix(seed, run), 15));
    let hash_seed = rng.next();
    let root = scratch_root("C15", seed, run);
    let (mut tree, docs) = project_tree(&mut rng);
    // One session in eight: the project is born later - no gleam.toml while the first documents
    // are opened (they are free-standing files then); it appears in mid-session and the next
    // didOpen inside the directory makes the server load the package around the open documents.
    let mut lrng = Rng::new(mix(mix(seed, run), 0x1A7E));
    let late_manifest = lrng.chance(1, 8);
    let manifest_text = tree.iter().find(|(p, _)| p == "gleam.toml").map(|(_, t)| t.clone()).unwrap_or_default();
    if late_manifest {
        tree.retain(|(p, _)| p != "gleam.toml");
    }
    let root_uri = format!("file://{root}");
    let rich = rng.chance(1, 2);
    let mut ops = crate::lsp::preamble_caps(Some(&root_uri), rich);
    let mut models: BTreeMap<String, DocModel> = BTreeMap::new();
    let mut next_id = 1i64;
    let tree_text = |rel: &str| tree.iter().find(|(p, _)| p == rel).map(|(_, t)| t.clone()).unwrap_or_default();

    // ---- valid base: open 1-3 documents
    let nopen = rng.range(1, 3);
    let mut open_docs: Vec<String> = Vec::new();
    for rel in docs.iter().take(nopen) {
        let uri = uri_for(&root, rel);
        let mut text = tree_text(rel);
        if rng.chance(1, 3) {
            text.push_str("\npub fn extra() { 💣 }\r\n");
        }
        ops.push(PlannedOp::new(Op::Open { uri: uri.clone(), text: text.clone() }));
        ops.push(PlannedOp::new(Op::ProbeText { uri: uri.clone() }));
        models.insert(uri.clone(), DocModel { text });
        open_docs.push(uri);
    }
    let all_uris: Vec<String> = open_docs.clone();

    // ---- body: valid traffic with invalid / unusual messages spliced in
    let nbody = rng.range(3, if thorough { 14 } else { 9 });
    let mut invalid_budget = rng.range(1, 4);
    let mut disk_budget = rng.range(0, 2);
    let mut closed: BTreeSet<String> = BTreeSet::new();
    let born_at = lrng.below(nbody);
    for round in 0..nbody {
        if late_manifest && round == born_at {
            ops.push(PlannedOp::tagged(Op::Disk(DiskOp::Write { path: "gleam.toml".into(), text: manifest_text.clone() }), "disk.manifest_appears"));
            let unopened: Vec<&String> = docs.iter().filter(|d| !open_docs.contains(&uri_for(&root, d))).collect();
            let (u, t) = if !unopened.is_empty() && lrng.chance(2, 3) {
                { let d: &String = *lrng.pick(&unopened[..]); (uri_for(&root, d), gen_text(&mut lrng, 10)) }
            } else {
                (uri_for(&root, "gleam.toml"), manifest_text.clone())
            };
            ops.push(PlannedOp::tagged(Op::Open { uri: u, text: t }, "didOpen.discovers_package_of_open_documents"));
            for u in &all_uris {
                ops.push(PlannedOp::new(Op::ProbeText { uri: u.clone() }));
            }
        }
        if lrng.chance(1, 12) {
            // A file event for a file the editor does not have open, and in the same breath the
            // didOpen of that very file with a text that differs from the disk (the user clicks on
            // a file that a checkout has just rewritten), then an edit: from the didOpen on the
            // document is the editor's, whatever the server was still doing about the event.
            let unopened: Vec<&String> = docs.iter().filter(|d| !models.contains_key(&uri_for(&root, d)) || closed.contains(&uri_for(&root, d))).collect();
            if !unopened.is_empty() {
                let rel: &String = *lrng.pick(&unopened[..]);
                let u = uri_for(&root, rel);
                ops.push(PlannedOp::tagged(Op::Watched { changes: vec![(u.clone(), *lrng.pick(&[2u32, 1, 3]))] }, "didChangeWatchedFiles.then_open_at_once"));
                let text = gen_text(&mut lrng, 12);
                let mut p = PlannedOp::tagged(Op::Open { uri: u.clone(), text: text.clone() }, "didOpen.right_after_file_event");
                p.tags.push("glued".into());
                ops.push(p);
                // (checked before the edit as well: after an edit "dropped, document forgotten" is
                // a legal outcome and disk activity then excuses whatever the server holds)
                ops.push(PlannedOp::new(Op::ProbeText { uri: u.clone() }));
                let mut m = DocModel { text };
                let r = m.random_range(&mut lrng);
                let e = Edit { range: Some(r), text: gen_text(&mut lrng, 4) };
                m.apply(&e).unwrap();
                ops.push(PlannedOp::new(Op::Change { uri: u.clone(), edits: vec![e] }));
                ops.push(PlannedOp::new(Op::ProbeText { uri: u.clone() }));
                models.insert(u.clone(), m);
                closed.remove(&u);
            }
        }
        let uri = rng.pick(&all_uris).clone();
        let choice = rng.below(20);
        match choice {
            0..=2 => {
                // valid change
                if let Some(m) = models.get_mut(&uri) {
                    let r = m.random_range(&mut rng);
                    let e = Edit { range: Some(r), text: gen_text(&mut rng, 5) };
                    m.apply(&e).unwrap();
                    ops.push(PlannedOp::new(Op::Change { uri: uri.clone(), edits: vec![e] }));
                    ops.push(PlannedOp::new(Op::ProbeText { uri: uri.clone() }));
                }
            }
            3..=4 => {
                // valid request
                let pos = models.get(&uri).map(|m| m.random_pos(&mut rng)).unwrap_or([0, 0]);
                let method = *rng.pick(REQ_METHODS);
                ops.push(PlannedOp::new(request(next_id, method, &uri, pos, &mut rng)));
                next_id += 1;
            }
            5..=8 if invalid_budget > 0 => {
                // didChange with 1-3 changes of which at least one is invalid
                invalid_budget -= 1;
                let Some(m) = models.get(&uri) else { continue };
                let mut scratch = m.clone();
                let n = rng.range(1, 3);
                let bad_at = rng.below(n);
                let mut edits = Vec::new();
                let mut tags = Vec::new();
                for k in 0..n {
                    if k == bad_at {
                        let (e, tag) = invalid_edit(&mut rng, &scratch);
                        tags.push(tag.to_string());
                        edits.push(e);
                    } else {
                        let r = scratch.random_range(&mut rng);
                        let e = Edit { range: Some(r), text: gen_text(&mut rng, 3) };
                        let _ = scratch.apply(&e);
                        edits.push(e);
                    }
                }
                if n > 1 {
                    tags.push(if bad_at + 1 < n { "didChange.multi.invalid_then_more".to_string() } else { "didChange.multi.invalid_last".to_string() });
                }
                let mut p = PlannedOp::new(Op::Change { uri: uri.clone(), edits });
                p.tags = tags;
                ops.push(p);
                for u in &all_uris {
                    ops.push(PlannedOp::new(Op::ProbeText { uri: u.clone() }));
                }
                // the generator's own model no longer knows what the document holds
                models.remove(&uri);
            }
            9 if invalid_budget > 0 => {
                // request with an invalid position
                invalid_budget -= 1;
                let (pos, tag) = match rng.below(4) {
                    0 => ([models.get(&uri).map_or(5, |m| m.line_count()), 0], "request.line.past_end"),
                    1 => ([0, 1 << 20], "request.column.huge"),
                    2 => ([u32::MAX, u32::MAX], "request.position.max"),
                    _ => ([models.get(&uri).map_or(1, |m| m.line_count() - 1), 500], "request.column.past_line_end"),
                };
                let method = *rng.pick(REQ_METHODS);
                let mut p = PlannedOp::tagged(request(next_id, method, &uri, pos, &mut rng), tag);
                p.tags.push(format!("req.{method}"));
                ops.push(p);
                next_id += 1;
            }
            10 if invalid_budget > 0 => {
                // traffic for documents the server cannot know
                invalid_budget -= 1;
                let (odd, tag) = *rng.pick(ODD_URIS);
                match rng.below(4) {
                    0 => ops.push(PlannedOp::tagged(Op::Open { uri: odd.to_string(), text: gen_text(&mut rng, 10) }, &format!("didOpen.{tag}"))),
                    1 => ops.push(PlannedOp::tagged(
                        Op::Change { uri: odd.to_string(), edits: vec![Edit { range: Some([0, 0, 0, 0]), text: "x".into() }] },
                        &format!("didChange.{tag}"),
                    )),
                    2 => {
                        let method = *rng.pick(REQ_METHODS);
                        ops.push(PlannedOp::tagged(request(next_id, method, odd, [0, 0], &mut rng), &format!("request.{tag}")));
                        next_id += 1;
                    }
                    _ => ops.push(PlannedOp::tagged(Op::Close { uri: odd.to_string() }, &format!("didClose.{tag}"))),
                }
            }
            11 => {
                // close, then (sometimes) keep talking about the closed document
                if models.contains_key(&uri) && !closed.contains(&uri) {
                    ops.push(PlannedOp::new(Op::Close { uri: uri.clone() }));
                    closed.insert(uri.clone());
                    if rng.chance(1, 2) {
                        let m = models.get_mut(&uri).unwrap();
                        let r = m.random_range(&mut rng);
                        let e = Edit { range: Some(r), text: gen_text(&mut rng, 3) };
                        // a change after close may be applied to the retained text or dropped
                        ops.push(PlannedOp::tagged(Op::Change { uri: uri.clone(), edits: vec![e] }, "didChange.after_close"));
                        models.remove(&uri);
                    }
                }
            }
            12 => {
                // duplicate open with another text
                if models.contains_key(&uri) {
                    let text = gen_text(&mut rng, 20);
                    ops.push(PlannedOp::tagged(Op::Open { uri: uri.clone(), text: text.clone() }, "didOpen.duplicate"));
                    ops.push(PlannedOp::new(Op::ProbeText { uri: uri.clone() }));
                    models.insert(uri.clone(), DocModel { text });
                    closed.remove(&uri);
                }
            }
            15 if invalid_budget > 0 => {
                // protocol-level oddities around requests
                invalid_budget -= 1;
                match rng.below(5) {
                    0 => {
                        ops.push(PlannedOp::tagged(
                            Op::Request { id: next_id, method: "textDocument/noSuchMethod".into(), uri: uri.clone(), pos: [0, 0], extra: json!({}) },
                            "request.unknown_method",
                        ));
                        next_id += 1;
                    }
                    1 => {
                        // cancel something that was never asked, or was answered long ago
                        let id = if rng.chance(1, 2) { 777_000 + rng.below(5) as i64 } else { (next_id - 1).max(0) };
                        ops.push(PlannedOp::tagged(Op::Cancel { id }, "cancelRequest.unknown_or_answered_id"));
                    }
                    2 => {
                        if rng.chance(1, 2) {
                            // a change notification that carries no change at all
                            ops.push(PlannedOp::tagged(Op::Change { uri: uri.clone(), edits: vec![] }, "didChange.no_content_changes"));
                            ops.push(PlannedOp::new(Op::ProbeText { uri: uri.clone() }));
                        } else {
                            ops.push(PlannedOp::tagged(
                                Op::Raw { msg: json!({"jsonrpc":"2.0","method":"$/glasSimUnknown","params":{"x":1}}) },
                                "notification.unknown_dollar_method",
                            ));
                        }
                    }
                    3 => {
                        let method = *rng.pick(REQ_METHODS);
                        let params = match rng.below(4) {
                            0 => json!({}),
                            1 => json!({"textDocument": {"uri": uri}}),
                            2 => json!({"textDocument": {"uri": 17}, "position": {"line": "x", "character": -1}}),
                            _ => json!([1, 2, 3]),
                        };
                        // syntaxTree and semanticTokens/full are complete with the document alone
                        ops.push(PlannedOp::tagged(
                            Op::Raw { msg: json!({"jsonrpc":"2.0","id": next_id, "method": method, "params": params}) },
                            "request.malformed_params",
                        ));
                        next_id += 1;
                    }
                    _ => {
                        ops.push(PlannedOp::tagged(
                            Op::Raw { msg: json!({"jsonrpc":"2.0","method":"workspace/didChangeConfiguration","params":{"settings": {"glas": rng.below(3)}}}) },
                            "notification.didChangeConfiguration",
                        ));
                    }
                }
            }
            16 if invalid_budget > 0 => {
                // request whose column lies inside a surrogate pair
                let mut found = None;
                if let Some(m) = models.get(&uri) {
                    'outer: for (li, (s, e, _)) in m.lines().iter().enumerate() {
                        let mut units = 0u32;
                        for c in m.text[*s..*e].chars() {
                            if c.len_utf16() == 2 {
                                found = Some([li as u32, units + 1]);
                                break 'outer;
                            }
                            units += c.len_utf16() as u32;
                        }
                    }
                }
                if let Some(pos) = found {
                    invalid_budget -= 1;
                    let method = *rng.pick(REQ_METHODS);
                    let mut p = PlannedOp::tagged(request(next_id, method, &uri, pos, &mut rng), "request.column.mid_surrogate");
                    p.tags.push(format!("req.{method}"));
                    ops.push(p);
                    next_id += 1;
                }
            }
            17..=18 => {
                // the editor reports file events: for files the server knows, files it has never
                // heard of, things that are not files, names that mean something to the build tool
                const NAMES: &[&str] = &[
                    "manifest.toml", "gleam.toml", "src/b.gleam", "src/a.gleam", "src/never.gleam", "test/t.gleam", "README.md",
                    "build/packages/packages.toml", "build/packages/dep/gleam.toml", "build/packages/dep/src/d.gleam", "src", "src/sub/x.gleam",
                    "build/packages/dep/manifest.toml",
                ];
                let mut changes = Vec::new();
                for _ in 0..rng.range(1, 3) {
                    let u = if rng.chance(1, 10) { rng.pick(ODD_URIS).0.to_string() } else { uri_for(&root, *rng.pick(NAMES)) };
                    changes.push((u, *rng.pick(&[1u32, 2, 3])));
                }
                ops.push(PlannedOp::tagged(Op::Watched { changes }, "didChangeWatchedFiles.assorted"));
            }
            13..=14 if disk_budget > 0 => {
                disk_budget -= 1;
                let (d, tag): (DiskOp, &str) = match rng.below(12) {
                    7 => (DiskOp::MkDir { path: "src/b.gleam".into() }, "disk.file_replaced_by_directory"),
                    8 => (DiskOp::Symlink { path: "src/loop".into(), target: "src".into() }, "disk.symlink_loop"),
                    9 => (DiskOp::Symlink { path: "src/b.gleam".into(), target: "src/gone.gleam".into() }, "disk.dangling_symlink"),
                    10 => (DiskOp::Fifo { path: "src/b.gleam".into() }, "disk.fifo_in_place_of_file"),
                    11 => (DiskOp::Symlink { path: "gleam.toml".into(), target: "src".into() }, "disk.gleam_toml_is_directory_link"),
                    0 => (DiskOp::Remove { path: "src/b.gleam".into() }, "disk.file_removed"),
                    1 => (DiskOp::RemoveDir { path: "src".into() }, "disk.src_dir_removed"),
                    2 => (DiskOp::Remove { path: "gleam.toml".into() }, "disk.gleam_toml_removed"),
                    3 => (DiskOp::Write { path: "gleam.toml".into(), text: "name = [\n".into() }, "disk.gleam_toml_invalid"),
                    4 => (DiskOp::Write { path: "gleam.toml".into(), text: "version = \"1\"\n".into() }, "disk.gleam_toml_nameless"),
                    5 => (DiskOp::WriteBytes { path: "src/a.gleam".into(), bytes: vec![0xff, 0xfe, 0x00, 0x80] }, "disk.non_utf8"),
                    _ => (DiskOp::RemoveDir { path: "build".into() }, "disk.deps_removed"),
                };
                ops.push(PlannedOp::tagged(Op::Disk(d), tag));
                // make the server look at the disk again
                match rng.below(3) {
                    0 => {
                        let rel = rng.pick(&docs).clone();
                        let u = uri_for(&root, &rel);
                        if !models.contains_key(&u) {
                            let text = gen_text(&mut rng, 10);
                            ops.push(PlannedOp::new(Op::Open { uri: u.clone(), text: text.clone() }));
                            models.insert(u, DocModel { text });
                        }
                    }
                    1 => {
                        let changes = vec![
                            (uri_for(&root, "src/b.gleam"), *rng.pick(&[1u32, 2, 3])),
                            (uri_for(&root, "gleam.toml"), *rng.pick(&[1u32, 2, 3])),
                            (uri_for(&root, "src/a.gleam"), 2),
                            (uri_for(&root, "src/never.gleam"), *rng.pick(&[1u32, 3])),
                        ];
                        ops.push(PlannedOp::tagged(Op::Watched { changes }, "didChangeWatchedFiles"));
                    }
                    _ => {
                        // opening the project file itself makes the loader rebuild the graph
                        let u = uri_for(&root, "gleam.toml");
                        ops.push(PlannedOp::tagged(Op::Open { uri: u, text: "name = \"proj\"\n[dependencies]\ndep = \"1\"\nghost = { path = \"../ghost\" }\n".into() }, "didOpen.gleam_toml"));
                    }
                }
            }
            _ => {
                ops.push(PlannedOp::new(Op::Save { uri: uri.clone() }));
            }
        }
    }
    // ---- the server must still answer on a healthy document
    let healthy = "file:///nonexistent-glas-sim/c15/healthy.gleam".to_string();
    ops.push(PlannedOp::new(Op::Open { uri: healthy.clone(), text: "pub fn main() {\n  1\n}\n".into() }));
    ops.push(PlannedOp::new(Op::Request { id: 9000, method: "glas/syntaxTree".into(), uri: healthy.clone(), pos: [0, 0], extra: json!({}) }));
    ops.push(PlannedOp::new(Op::Request { id: 9001, method: "textDocument/hover".into(), uri: healthy, pos: [0, 8], extra: json!({}) }));
    for (k, u) in all_uris.iter().enumerate() {
        ops.push(PlannedOp::new(Op::ProbeText { uri: u.clone() }));
        // ... and what the server analyses must be what its document store holds
        ops.push(PlannedOp::new(Op::Request { id: 9100 + k as i64, method: "glas/syntaxTree".into(), uri: u.clone(), pos: [0, 0], extra: json!({}) }));
    }
    ops.push(PlannedOp::new(Op::Barrier));
    // One session in three is not polite: the client does not wait for the server between
    // messages (probes and the final questions still wait for quiescence), so the invalid
    // messages meet requests and diagnostics in flight.
    // now and then the editor spells the URI of a document another way
    if rng.chance(1, 4) {
        for p in ops.iter_mut() {
            let swap = |u: &mut String, rng: &mut Rng| {
                if all_uris.contains(u) && rng.chance(1, 4) {
                    *u = alt_spelling(u);
                }
            };
            match &mut p.op {
                Op::Open { uri, .. } | Op::Change { uri, .. } | Op::Close { uri } | Op::Save { uri } => swap(uri, &mut rng),
                Op::Request { uri, id, .. } if *id < 9000 => swap(uri, &mut rng),
                Op::Watched { changes } => {
                    for (u, _) in changes.iter_mut() {
                        swap(u, &mut rng);
                    }
                }
                _ => {}
            }
        }
    }
    let sequential = !rng.chance(1, 3);
    // One session in four: files vanish or change *while* the server is loading a package -
    // between its look at the directory and its read of a file, between finding a project root
    // and reading its manifest (an own PRNG stream, so that the rest of the session is what it
    // was before this fault kind existed).
    let mut midload = Vec::new();
    let mut frng = Rng::new(mix(mix(seed, run), 0xD15C));
    if frng.chance(1, 4) {
        for _ in 0..frng.range(1, 2) {
            let k = if frng.chance(1, 2) { frng.range(1, 15) } else { frng.range(1, 90) } as u64;
            let file = |r: &mut Rng| r.pick(&["src/a.gleam", "src/b.gleam", "test/t.gleam", "gleam.toml", "build/packages/dep/gleam.toml", "build/packages/dep/src/d.gleam"]).to_string();
            let d = match frng.below(12) {
                // the path still exists but is no longer a regular file: reading it must not
                // put the main loop to sleep
                10 | 11 => DiskOp::Fifo { path: file(&mut frng) },
                0..=3 => DiskOp::Remove { path: file(&mut frng) },
                4..=5 => DiskOp::RemoveDir { path: frng.pick(&["src", "test", "build", "build/packages/dep", "build/packages/dep/src"]).to_string() },
                6 => DiskOp::Write { path: frng.pick(&["gleam.toml", "build/packages/dep/gleam.toml"]).to_string(), text: frng.pick(&["name = [\n", "version = \"1\"\n", ""]).to_string() },
                7 => DiskOp::WriteBytes { path: file(&mut frng), bytes: vec![0xff, 0xfe, 0x00, 0x80] },
                8 => DiskOp::Write { path: file(&mut frng), text: "pub fn replaced_on_disk() { 1 }\n".into() },
                _ => DiskOp::Remove { path: "gleam.toml".into() },
            };
            midload.push((k, d));
        }
    }
    // Half of those sessions (and as many again) anchor a fault to one message that makes the
    // server look at the disk - a didOpen or a file event: at the j-th file-system call the main
    // loop makes after that message (j small: inside the handler of that very message) the path
    // the message is about, or another project file, vanishes, changes or becomes a FIFO.
    let mut midload_at = Vec::new();
    if frng.chance(1, 3) {
        let cands: Vec<usize> = ops.iter().enumerate().filter(|(_, p)| matches!(p.op, Op::Open { .. } | Op::Watched { .. })).map(|(i, _)| i).collect();
        if !cands.is_empty() {
            let watched: Vec<usize> = cands.iter().copied().filter(|i| matches!(ops[*i].op, Op::Watched { .. })).collect();
            let i = if !watched.is_empty() && frng.chance(2, 3) { *frng.pick(&watched) } else { *frng.pick(&cands) };
            let rel = |u: &str| u.strip_prefix(&format!("file://{root}/")).map(|r| r.to_string());
            let own: Vec<String> = match &ops[i].op {
                Op::Watched { changes } => changes.iter().filter_map(|(u, _)| rel(&canon(u))).collect(),
                Op::Open { uri, .. } => rel(&canon(uri)).into_iter().collect(),
                _ => Vec::new(),
            };
            let path = if !own.is_empty() && frng.chance(3, 4) { frng.pick(&own).clone() } else { frng.pick(&["src/a.gleam", "src/b.gleam", "gleam.toml", "build/packages/dep/gleam.toml"]).to_string() };
            let j = if matches!(ops[i].op, Op::Watched { .. }) { frng.range(1, 6) } else { frng.range(1, 30) } as u64;
            let d = match frng.below(6) {
                0 | 1 => DiskOp::Fifo { path },
                2 | 3 => DiskOp::Remove { path },
                4 => DiskOp::WriteBytes { path, bytes: vec![0xff, 0xfe, 0x00, 0x80] },
                _ => DiskOp::MkDir { path },
            };
            midload_at.push((i, j, d));
        }
    }
    Session {
        property: "C15".into(),
        seed,
        run,
        hash_seed,
        // limits below the number of requests that can be in flight would only reproduce the known
        // concurrency-limit finding of C16 when the client does not wait
        concurrency: if sequential { *rng.pick(&[1, 2, 4, 16]) } else { 256 },
        gran: if sequential { Granularity::Coarse } else { *rng.pick(&[Granularity::Coarse, Granularity::CheckOnly, Granularity::EveryK(5)]) },
        policy: if sequential { "sequential".into() } else { "seeded".into() },
        sequential,
        root,
        tree,
        ops,
        crashes: Vec::new(),
        midload,
        midload_at,
        decisions: None,
        hold: None,
        meta: json!({}),
    }
}

#[derive(Default)]
pub struct Stats {
    pub probes_checked: u64,
    pub invalid_ops: u64,
    pub disk_faults: u64,
    pub forgotten_outcomes: u64,
    pub applied_outcomes: u64,
    pub error_responses: u64,
    pub result_responses: u64,
    pub nontrivial: bool,
    pub kind_key: String,
}

/// `file:///a/%62.gleam` and `file:///a/b.gleam` name the same file: percent-escapes of
/// characters that need none are undone (what `Url::to_file_path` does on the server's side).
pub fn canon(uri: &str) -> String {
    if !uri.starts_with("file:///") || !uri.contains('%') {
        return uri.to_string();
    }
    let b = uri.as_bytes();
    let mut out: Vec<u8> = Vec::with_capacity(b.len());
    let mut i = 0;
    while i < b.len() {
        if b[i] == b'%' && i + 2 < b.len() {
            let hex = std::str::from_utf8(&b[i + 1..i + 3]).ok().and_then(|h| u8::from_str_radix(h, 16).ok());
            if let Some(c) = hex {
                if c.is_ascii_alphanumeric() || matches!(c, b'-' | b'.' | b'_' | b'~') {
                    out.push(c);
                    i += 3;
                    continue;
                }
            }
        }
        out.push(b[i]);
        i += 1;
    }
    String::from_utf8(out).unwrap_or_else(|_| uri.to_string())
}

/// Another legal spelling of the same file URI: the first letter of the file name escaped.
fn alt_spelling(uri: &str) -> String {
    match uri.rfind('/') {
        Some(i) if uri.starts_with("file:///") && i + 1 < uri.len() && uri.as_bytes()[i + 1].is_ascii_alphabetic() => {
            format!("{}%{:02X}{}", &uri[..=i], uri.as_bytes()[i + 1], &uri[i + 2..])
        }
        _ => uri.to_string(),
    }
}

/// Legal results of one content change on `text` (`None` = document forgotten).
fn legal_outcomes(text: &str, e: &Edit) -> BTreeSet<Option<String>> {
    let mut out: BTreeSet<Option<String>> = BTreeSet::new();
    // Dropping the change and forgetting the document is what the statement allows for "an edit
    // it cannot apply". A change that is valid against the text it applies to (or replaces the
    // whole text) can be applied, and every outcome but "applied" would be an edit gone astray.
    // (Until session 3 "forgotten" was legal after every change, which - together with the
    // relaxation for disk activity - excused every document that had been edited since its last
    // probe from the comparison once a file event had been seen.)
    let kind = classify_edit(Some(text), e);
    if kind != "valid" && kind != "full_text" {
        out.insert(None);
    }
    let m = DocModel { text: text.to_string() };
    match e.range {
        None => {
            out.insert(Some(e.text.replace('\r', "")));
        }
        Some([l1, c1, l2, c2]) => {
            // applied as the LSP rules define it (a column beyond the line end is the line end)
            let mut m2 = m.clone();
            if m2.apply(e).is_ok() {
                out.insert(Some(m2.normalized()));
            }
            // a line beyond the last line: applying at the document end is accepted as well
            let last = m.line_count() - 1;
            if l1 > last || l2 > last {
                let end_col = m.line_len16(last);
                let clamp = |l: u32, c: u32| if l > last { (last, end_col) } else { (l, c) };
                let (a, b) = (clamp(l1, c1), clamp(l2, c2));
                let mut m3 = m.clone();
                if m3.apply(&Edit { range: Some([a.0, a.1, b.0, b.1]), text: e.text.clone() }).is_ok() {
                    out.insert(Some(m3.normalized()));
                }
            }
        }
    }
    out
}

/// What is unusual about one content change, judged against the text it applies to.
fn classify_edit(text: Option<&str>, e: &Edit) -> &'static str {
    let Some([l1, c1, l2, c2]) = e.range else { return "full_text" };
    let Some(text) = text else { return "untracked_document" };
    let m = DocModel { text: text.to_string() };
    let last = m.line_count() - 1;
    if l1 > last || l2 > last {
        return "line_past_end";
    }
    let (a, b) = (m.offset(l1, c1), m.offset(l2, c2));
    if a.is_none() || b.is_none() {
        return "column_mid_surrogate";
    }
    if a > b {
        return "range_reversed";
    }
    if c1 > m.line_len16(l1) || c2 > m.line_len16(l2) {
        return "column_past_line_end";
    }
    "valid"
}

fn classify_uri(uri: &str) -> &'static str {
    if uri.starts_with("file:///") {
        "file"
    } else if uri.starts_with("file:") {
        "file_with_host"
    } else {
        "not_a_file"
    }
}

/// Kinds of an operation as the checker sees it (independent of the generator's tags, which go
/// stale when a replay is shrunk).
fn op_kinds(op: &Op, states: &BTreeMap<String, BTreeSet<Option<String>>>) -> Vec<String> {
    let mut v = op_kinds_inner(op, states);
    let alt = match op {
        Op::Open { uri, .. } | Op::Change { uri, .. } | Op::Close { uri } | Op::Save { uri } | Op::Request { uri, .. } => canon(uri) != *uri,
        Op::Watched { changes } => changes.iter().any(|(u, _)| canon(u) != *u),
        _ => false,
    };
    if alt {
        v.push("uri.alternative_spelling".into());
    }
    v
}

fn op_kinds_inner(op: &Op, states: &BTreeMap<String, BTreeSet<Option<String>>>) -> Vec<String> {
    let known = |uri: &str| -> Option<Option<String>> {
        let st = states.get(&canon(uri))?;
        if st.len() == 1 {
            st.iter().next().cloned()
        } else {
            None
        }
    };
    match op {
        Op::Open { uri, .. } => {
            let mut v = vec![format!("didOpen.uri_{}", classify_uri(uri))];
            if states.contains_key(&canon(uri)) {
                v.push("didOpen.again".into());
            }
            v
        }
        Op::Change { uri, edits } => {
            let mut v = Vec::new();
            if edits.is_empty() {
                v.push("didChange.no_content_changes".to_string());
            }
            let mut cur: Option<Option<String>> = known(uri);
            if classify_uri(uri) != "file" {
                v.push(format!("didChange.uri_{}", classify_uri(uri)));
            }
            let mut seen_invalid = false;
            for e in edits {
                let text = cur.as_ref().and_then(|c| c.as_deref());
                let k = classify_edit(text, e);
                if seen_invalid {
                    v.push("didChange.more_after_invalid".into());
                }
                if k != "valid" && k != "full_text" {
                    seen_invalid = true;
                }
                v.push(format!("didChange.{k}"));
                // follow the text as long as the change is appliable
                cur = match (text, k) {
                    (Some(t), "valid") | (Some(t), "column_past_line_end") => {
                        let mut m = DocModel { text: t.to_string() };
                        if m.apply(e).is_ok() { Some(Some(m.normalized())) } else { Some(None) }
                    }
                    (_, "full_text") => Some(Some(e.text.replace('\r', ""))),
                    _ => Some(None),
                };
            }
            v.sort();
            v.dedup();
            v
        }
        Op::Request { method, uri, pos, .. } => {
            let mut v = vec![format!("req.{method}")];
            match known(uri) {
                Some(Some(t)) => {
                    let m = DocModel { text: t };
                    if pos[0] >= m.line_count() {
                        v.push("request.line_past_end".into());
                    } else if pos[1] > m.line_len16(pos[0]) {
                        v.push("request.column_past_line_end".into());
                    } else if m.offset(pos[0], pos[1]).is_none() {
                        v.push("request.column_mid_surrogate".into());
                    }
                }
                _ => v.push("request.untracked_document".into()),
            }
            v
        }
        Op::Close { uri } => vec![format!("didClose.uri_{}", classify_uri(uri))],
        Op::Save { .. } => vec!["didSave".into()],
        Op::Cancel { .. } => vec!["cancelRequest".into()],
        Op::Watched { changes } => {
            let mut v = vec!["didChangeWatchedFiles".to_string()];
            for (u, _) in changes {
                let k = format!("watched.{}", u.rsplit('/').next().unwrap_or(u));
                if !v.contains(&k) {
                    v.push(k);
                }
            }
            v
        }
        Op::Raw { msg } => {
            let method = msg.get("method").and_then(|m| m.as_str()).unwrap_or("");
            if msg.get("id").is_some() {
                vec![format!("req.{method}"), "request.malformed_params".into()]
            } else if method.starts_with("$/") {
                vec!["notification.unknown_dollar_method".into()]
            } else {
                vec![format!("notification.{}", method.rsplit('/').next().unwrap_or(method))]
            }
        }
        Op::Disk(d) => vec![format!("disk.{}", match d {
            DiskOp::Write { .. } => "write",
            DiskOp::WriteBytes { .. } => "write_bytes",
            DiskOp::Remove { .. } => "remove_file",
            DiskOp::RemoveDir { .. } => "remove_dir",
            DiskOp::MkDir { .. } => "mkdir",
            DiskOp::Symlink { .. } => "symlink",
            DiskOp::Fifo { .. } => "fifo",
        })],
        Op::Barrier | Op::ProbeText { .. } => Vec::new(),
    }
}

pub fn check(s: &Session, h: &History, stats: &mut Stats) -> Option<Violation> {
    let tags = lspcheck::all_tags(s);
    stats.invalid_ops = s.ops.iter().filter(|p| p.tags.iter().any(|t| !t.starts_with("disk.") && !t.starts_with("req."))).count() as u64;
    stats.disk_faults = s.ops.iter().filter(|p| p.tags.iter().any(|t| t.starts_with("disk."))).count() as u64;
    stats.nontrivial = stats.invalid_ops + stats.disk_faults > 0;
    stats.kind_key = tags.iter().filter(|t| !t.starts_with("req.")).cloned().collect::<Vec<_>>().join("|");
    if h.degraded_free_run {
        return None;
    }
    if let Some(d) = &h.deadlock {
        return Some(Violation {
            oracle: "liveness.no_deadlock".into(),
            kinds: vec!["deadlock".into()],
            detail: format!("no thread can move and the server does not drain even with every hook passing through: {d}"),
        });
    }
    // the operation during which the server went away, if it did
    let died_at: Option<usize> = h.server_exit.as_ref().map(|_| {
        h.events.iter().rev().find_map(|e| match e { Ev::Sent { op, .. } => Some(*op), _ => None }).unwrap_or(0)
    });
    let mut probe_results: BTreeMap<usize, Option<String>> = BTreeMap::new();
    for e in &h.events {
        if let Ev::Probe { op, text, .. } = e {
            probe_results.insert(*op, text.clone());
        }
    }
    // per document: the set of texts the server may legally hold (None = not tracked)
    let mut states: BTreeMap<String, BTreeSet<Option<String>>> = BTreeMap::new();
    let mut last_kinds: BTreeMap<String, Vec<String>> = BTreeMap::new();
    // a disk fault inside an operation is disk activity at a moment the operation list does not
    // show: the relaxation for documents the client does not maintain holds from the start
    let mid_fired = h.faults.get("disk_mid_operation").copied().unwrap_or(0) > 0;
    let mut disk_touched = mid_fired;
    let mut disk_kinds: Vec<String> = Vec::new();
    if mid_fired {
        disk_kinds.push("disk.mid_operation".into());
        stats.disk_faults += 1;
        stats.nontrivial = true;
    }
    let mut open_now: BTreeSet<String> = BTreeSet::new();
    let mut alt_event: BTreeSet<String> = BTreeSet::new();
    let mut maybe_forgotten: BTreeSet<String> = BTreeSet::new();
    let mut open_spellings: BTreeMap<String, BTreeSet<String>> = BTreeMap::new();
    for (i, p) in s.ops.iter().enumerate() {
        let kinds = op_kinds(&p.op, &states);
        if died_at == Some(i) {
            let (step, reason) = h.server_exit.clone().unwrap();
            let mut k = kinds.clone();
            let only = k.len() == 1;
            k.retain(|t| !t.starts_with("req.") || only);
            k.extend(disk_kinds.iter().cloned());
            k.sort();
            k.dedup();
            k.insert(0, if reason.starts_with("panicked") { "server.main_loop_panicked".into() } else { "server.main_loop_ended".into() });
            return Some(Violation {
                oracle: "server_alive".into(),
                kinds: k,
                detail: format!(
                    "the main loop ended at step {step} ({}) while handling operation {i}: {}",
                    reason.lines().next().unwrap_or(""),
                    p.op.to_json().to_string().chars().take(300).collect::<String>()
                ),
            });
        }
        match &p.op {
            Op::Disk(_) | Op::Watched { .. } => {
                // watched-file events legitimately reload unopened files from disk
                disk_touched = true;
                // a document the server may have forgotten by now (an edit it could not apply) is
                // no longer "maintained by the client" in the server's eyes until it is opened
                // again: from here on disk activity may reload or remove it
                for (u, st) in &states {
                    if st.contains(&None) {
                        maybe_forgotten.insert(u.clone());
                    }
                }
                disk_kinds.extend(kinds.iter().cloned());
                if let Op::Watched { changes } = &p.op {
                    for (u, _) in changes {
                        let c = canon(u);
                        let known_spelling = open_spellings.get(&c).map_or(true, |sp| sp.is_empty() || (sp.len() == 1 && sp.contains(u)));
                        if !known_spelling {
                            alt_event.insert(c);
                        }
                    }
                }
            }
            Op::Open { uri, text } => {
                open_spellings.entry(canon(uri)).or_default().insert(uri.clone());
                let uri = &canon(uri);
                open_now.insert(uri.clone());
                maybe_forgotten.remove(uri);
                let mut st = BTreeSet::new();
                st.insert(Some(text.replace('\r', "")));
                states.insert(uri.clone(), st);
                last_kinds.insert(uri.clone(), kinds);
            }
            Op::Change { uri, edits } => {
                let uri = &canon(uri);
                let mut cur = states.get(uri).cloned().unwrap_or_else(|| [None].into_iter().collect());
                for e in edits {
                    let mut next: BTreeSet<Option<String>> = BTreeSet::new();
                    for st in &cur {
                        match st {
                            None => {
                                next.insert(None);
                            }
                            Some(t) => next.extend(legal_outcomes(t, e)),
                        }
                    }
                    cur = next;
                }
                states.insert(uri.clone(), cur);
                last_kinds.insert(uri.clone(), kinds);
            }
            Op::Close { uri } => {
                let c = canon(uri);
                if let Some(sp) = open_spellings.get_mut(&c) {
                    sp.remove(uri);
                    if sp.is_empty() {
                        open_now.remove(&c);
                    } else {
                        // closed under one spelling, still open under another: the pinned code
                        // keeps one entry per spelling, nothing in the statement covers this
                        alt_event.insert(c);
                    }
                }
            }
            Op::ProbeText { uri } => {
                let uri = &canon(uri);
                let Some(got) = probe_results.get(&i) else { continue };
                let Some(legal) = states.get(uri) else { continue };
                // Disk activity may legitimately change what the server holds for a document the
                // client does NOT maintain (closed, or forgotten by the server), and a file event
                // under another spelling of an open document's URI is not recognised as "maintained
                // by the client" by the pinned code either (no property speaks about that). A
                // document the client has open under the spelling the events used stays checked.
                if got.is_none() {
                    maybe_forgotten.insert(uri.clone());
                }
                let maintained = open_now.contains(uri) && !legal.contains(&None) && !alt_event.contains(uri) && !maybe_forgotten.contains(uri);
                if disk_touched && !uri.contains("nonexistent") && !maintained {
                    // a reload from disk may have replaced the text of a document the client
                    // closed; pin the state to what is there and go on
                    if !legal.contains(got) {
                        let mut st = BTreeSet::new();
                        st.insert(got.clone());
                        states.insert(uri.clone(), st);
                    }
                    continue;
                }
                stats.probes_checked += 1;
                if !legal.contains(got) {
                    let mut kinds = last_kinds.get(uri).cloned().unwrap_or_default();
                    kinds.sort();
                    let mut legal_s: Vec<String> = legal.iter().map(|l| format!("{l:?}")).collect();
                    legal_s.truncate(4);
                    return Some(Violation {
                        oracle: "dropped_never_misapplied".into(),
                        kinds,
                        detail: format!("after operation {i} the server holds {:?} for {uri}; legal: {}", got, legal_s.join(" | ")),
                    });
                }
                match got {
                    None => stats.forgotten_outcomes += 1,
                    Some(_) => stats.applied_outcomes += 1,
                }
                // the server has decided: continue from what it holds
                let mut st = BTreeSet::new();
                st.insert(got.clone());
                states.insert(uri.clone(), st);
            }
            _ => {}
        }
    }
    if died_at.is_some() {
        return lspcheck::liveness_violation(s, h);
    }
    if !h.completed {
        return None;
    }
    // exactly one response per request
    if let Some(mut v) = lspcheck::exactly_once(s, h) {
        v.kinds.retain(|k| !s.ops.iter().any(|p| p.tags.contains(k)));
        return Some(v);
    }
    let resp = h.responses();
    for v in resp.values().flatten() {
        if v.get("error").is_some() {
            stats.error_responses += 1;
        } else {
            stats.result_responses += 1;
        }
    }
    // the analysis database follows the document store: for every document probed at the end, the
    // syntax tree asked for right after the probe is that of the text the probe saw
    for (i, p) in s.ops.iter().enumerate() {
        let Op::Request { id, method, uri, .. } = &p.op else { continue };
        if !(9100..9200).contains(id) || method != "glas/syntaxTree" || i == 0 {
            continue;
        }
        let Some(Some(held)) = probe_results.get(&(i - 1)) else { continue };
        let Some(r) = resp.get(id).and_then(|v| v.first()) else { continue };
        let Some(tree) = r.get("result").and_then(|t| t.as_str()) else { continue };
        if let Some(diff) = crate::c13::tree_differs_from(tree, held) {
            return Some(Violation {
                oracle: "analysis_follows_document_store".into(),
                kinds: last_kinds.get(uri).cloned().unwrap_or_default(),
                detail: format!("at the end the server holds {:?} for {uri} but its syntax tree is not that of this text: {diff}", held),
            });
        }
    }
    // a healthy document is still served (asked only of sessions that still contain the question:
    // a shrunk replay may have lost it)
    let asks_healthy = s.ops.iter().any(|p| matches!(&p.op, Op::Request { id: 9000, .. }));
    if !asks_healthy {
        return None;
    }
    match resp.get(&9000).and_then(|v| v.first()) {
        Some(r) if r.get("result").and_then(|t| t.as_str()).map_or(false, |t| t.starts_with("SOURCE_FILE@0..22")) => {}
        other => {
            return Some(Violation {
                oracle: "keeps_answering".into(),
                kinds: vec!["healthy_document".into()],
                detail: format!("glas/syntaxTree on a freshly opened healthy document was answered with {:?}", other.map(|v| v.to_string().chars().take(300).collect::<String>())),
            });
        }
    }
    None
}
