//! C16 — edits racing with requests never deadlock and the server converges.
use crate::c13::gen_text;
use crate::c15::{request, REQ_METHODS};
use crate::core::Granularity;
use crate::gen::gen_module;
use crate::ide_sim::Violation;
use crate::lsp::{preamble, run_session, scratch_root, uri_for, DocModel, Edit, Ev, History, Op, PlannedOp, Session};
use crate::lspcheck;
use crate::rng::{mix, Rng};
use serde_json::{json, Value};
use std::collections::BTreeMap;

fn draw_gran(rng: &mut Rng) -> Granularity {
    match rng.below(10) {
        0..=1 => Granularity::All,
        2..=4 => Granularity::CheckOnly,
        5..=6 => Granularity::EveryK(5),
        _ => Granularity::Coarse,
    }
}

pub fn gen_session(seed: u64, run: u64, thorough: bool) -> Session {
    let mut rng = Rng::new(mix(mix(seed, run), 16));
    let hash_seed = rng.next();
    let root = scratch_root("C16", seed, run);
    let (a, sa) = gen_module(&mut rng, &[]);
    let (b, sb) = gen_module(&mut rng, &[("a".to_string(), sa)]);
    let a = if rng.chance(1, 8) {
        // mutual import: two tasks can meet inside one query and salsa's cycle path runs
        let (a2, _) = gen_module(&mut rng, &[("b".to_string(), sb)]);
        a2
    } else {
        a
    };
    let tree = vec![
        ("gleam.toml".to_string(), "name = \"proj\"\n".to_string()),
        ("src/a.gleam".to_string(), a.clone()),
        ("src/b.gleam".to_string(), b.clone()),
    ];
    let root_uri = format!("file://{root}");
    let rich = rng.chance(1, 2);
    let mut ops = crate::lsp::preamble_caps(Some(&root_uri), rich);
    let ua = uri_for(&root, "src/a.gleam");
    let ub = uri_for(&root, "src/b.gleam");
    let mut models: BTreeMap<String, DocModel> = BTreeMap::new();
    let mut open: Vec<String> = Vec::new();
    ops.push(PlannedOp::new(Op::Open { uri: ub.clone(), text: b.clone() }));
    models.insert(ub.clone(), DocModel { text: b });
    open.push(ub.clone());
    if rng.chance(1, 2) {
        ops.push(PlannedOp::new(Op::Open { uri: ua.clone(), text: a.clone() }));
        models.insert(ua.clone(), DocModel { text: a });
        open.push(ua.clone());
    }
    if rng.chance(2, 3) {
        ops.push(PlannedOp::new(Op::Barrier));
    }
    let mut next_id = 1i64;
    let mut pending: Vec<i64> = Vec::new();
    let mut est_tasks = open.len() as u64;
    // One session in twenty-five is a long burst: dozens of edits and a batch of requests that the
    // editor writes in one go (a replayed macro, a formatter applying its edits one by one), so
    // that whatever the server queues between the main loop and its tasks fills up.
    let long_burst = rng.chance(1, 25);
    let concurrency: usize = *rng.pick(&[1, 2, 4, 16, 256, 256, 256, 256, 256, 256, 256, 256]);
    if long_burst {
        let uri = rng.pick(&open).clone();
        let n = rng.range(34, if thorough { 90 } else { 70 });
        for k in 0..n {
            let m = models.get_mut(&uri).unwrap();
            let e = if k == 0 {
                // start from a small text so that every computation is short
                Edit { range: None, text: "pub fn main() {\n  1\n}\n".into() }
            } else {
                let r = m.random_range(&mut rng);
                Edit { range: Some(r), text: gen_text(&mut rng, 3) }
            };
            m.apply(&e).unwrap();
            let mut p = PlannedOp::new(Op::Change { uri: uri.clone(), edits: vec![e] });
            if k > 0 {
                p.tags.push("glued".into());
            }
            ops.push(p);
            est_tasks += open.len() as u64;
        }
        let nreq = rng.range(0, 12).min(concurrency.saturating_sub(1));
        for _ in 0..nreq {
            let pos = models[&uri].random_pos(&mut rng);
            let method = *rng.pick(REQ_METHODS);
            let mut p = PlannedOp::new(request(next_id, method, &uri, pos, &mut rng));
            p.tags.push("glued".into());
            ops.push(p);
            next_id += 1;
            est_tasks += 1;
        }
        ops.push(PlannedOp::new(Op::Barrier));
    }
    let nbursts = if long_burst { rng.range(0, 1) } else { rng.range(1, if thorough { 6 } else { 4 }) };
    for _ in 0..nbursts {
        let nops = rng.range(2, 9);
        for _ in 0..nops {
            let uri = rng.pick(&open).clone();
            match rng.below(13) {
                12 => {
                    // a file the client has not opened changes on disk; the editor tells the server
                    let (text, _) = gen_module(&mut rng, &[]);
                    ops.push(PlannedOp::tagged(Op::Disk(crate::lsp::DiskOp::Write { path: "src/c.gleam".into(), text }), "disk.unopened_file_written"));
                    ops.push(PlannedOp::tagged(
                        Op::Watched { changes: vec![(uri_for(&root, "src/c.gleam"), *rng.pick(&[1u32, 2]))] },
                        "didChangeWatchedFiles",
                    ));
                }
                0..=4 => {
                    // a burst of didChange (valid edits only)
                    for _ in 0..rng.range(1, 3) {
                        let m = models.get_mut(&uri).unwrap();
                        let nedits = *rng.pick(&[1, 1, 2]);
                        let mut edits = Vec::new();
                        for _ in 0..nedits {
                            let e = if rng.chance(1, 10) {
                                Edit { range: None, text: gen_module(&mut rng, &[]).0 }
                            } else {
                                let r = m.random_range(&mut rng);
                                let t = if rng.chance(1, 3) { crate::gen::mutate(&mut rng, "x").0 } else { gen_text(&mut rng, 4) };
                                Edit { range: Some(r), text: t }
                            };
                            m.apply(&e).unwrap();
                            edits.push(e);
                        }
                        let mut p = PlannedOp::new(Op::Change { uri: uri.clone(), edits });
                        if rng.chance(1, 8) {
                            p.cuts = vec![rng.range(1, 60), rng.range(61, 200)];
                        }
                        ops.push(p);
                        est_tasks += 1;
                    }
                }
                5..=8 => {
                    // a batch of concurrent requests
                    for _ in 0..rng.range(1, 8) {
                        let u = rng.pick(&open).clone();
                        let pos = models[&u].random_pos(&mut rng);
                        let method = *rng.pick(REQ_METHODS);
                        ops.push(PlannedOp::new(request(next_id, method, &u, pos, &mut rng)));
                        pending.push(next_id);
                        next_id += 1;
                        est_tasks += 1;
                    }
                }
                9 if !pending.is_empty() => {
                    let id = *rng.pick(&pending);
                    ops.push(PlannedOp::new(Op::Cancel { id }));
                }
                10 => {
                    ops.push(PlannedOp::new(Op::Save { uri: uri.clone() }));
                }
                _ => {
                    // close and re-open: with the same text (what an editor does on a tab switch)
                    // or with another one (the file was changed outside the editor meanwhile)
                    let text = if rng.chance(1, 2) {
                        models[&uri].text.clone()
                    } else {
                        let (t, _) = crate::gen::mutate(&mut rng, &models[&uri].text);
                        if crate::lsp::has_lone_cr(&t) { t.replace('\r', "") } else { t }
                    };
                    models.insert(uri.clone(), DocModel { text: text.clone() });
                    // (one time in four the editor announces the document again without having
                    // closed it - what some do after a crash recovery)
                    if !rng.chance(1, 4) {
                        ops.push(PlannedOp::new(Op::Close { uri: uri.clone() }));
                    }
                    ops.push(PlannedOp::new(Op::Open { uri: uri.clone(), text }));
                    est_tasks += 1;
                }
            }
        }
        if rng.chance(1, 2) {
            ops.push(PlannedOp::new(Op::Barrier));
            pending.clear();
        }
    }
    // now and then the editor writes a message in the same go as the one before
    if !long_burst {
        let first_body = 5.min(ops.len());
        for k in first_body..ops.len() {
            let glueable = |o: &Op| matches!(o, Op::Open { .. } | Op::Change { .. } | Op::Close { .. } | Op::Save { .. } | Op::Request { .. } | Op::Cancel { .. } | Op::Watched { .. });
            if glueable(&ops[k].op) && glueable(&ops[k - 1].op) && ops[k - 1].cuts.is_empty() && rng.chance(1, 6) {
                ops[k].tags.push("glued".into());
            }
        }
    }
    // ---- the client goes quiet
    ops.push(PlannedOp::new(Op::Barrier));
    for u in &open {
        ops.push(PlannedOp::new(Op::ProbeText { uri: u.clone() }));
    }
    for (k, u) in open.iter().enumerate() {
        // one at a time: the probes must not themselves run into the concurrency limit
        ops.push(PlannedOp::new(Op::Request { id: 9000 + k as i64, method: "glas/syntaxTree".into(), uri: u.clone(), pos: [0, 0], extra: json!({}) }));
        ops.push(PlannedOp::new(Op::Barrier));
    }
    let mut crashes = Vec::new();
    if rng.chance(1, 4) {
        for _ in 0..rng.range(1, 2) {
            crashes.push((rng.range(1, est_tasks.max(1) as usize) as u64, rng.range(1, 60) as u64));
        }
    }
    // one run in three holds tasks of one kind of point until the main loop passes another
    let hold = if rng.chance(1, 3) {
        let (a, b) = *rng.pick(&[
            ("task:start", "didchange:vfs_updated"),
            ("task:start", "apply:end"),
            ("task:end", "task:spawned"),
            ("task:end", "apply:end"),
            ("vfs:read", "didchange:vfs_updated"),
            ("query:begin", "apply:begin"),
            ("query:end", "task:spawned"),
        ]);
        Some((a.to_string(), b.to_string()))
    } else {
        None
    };
    Session {
        property: "C16".into(),
        seed,
        run,
        hash_seed,
        concurrency,
        gran: draw_gran(&mut rng),
        policy: "seeded".into(),
        sequential: false,
        root,
        tree,
        ops,
        crashes,
        midload: Vec::new(),
        midload_at: Vec::new(),
        decisions: None,
        hold,
        meta: json!({}),
    }
}

#[derive(Default)]
pub struct Stats {
    pub requests: u64,
    pub results_compared: u64,
    pub error_responses: u64,
    pub cancelled_responses: u64,
    pub reference_sessions: u64,
    pub errors_compared: u64,
    pub disk_seen_early: u64,
    pub oracle_unstable: u64,
    pub diagnostics_compared: u64,
    pub nontrivial: bool,
    pub window_probes: BTreeMap<String, u64>,
}

/// Sort arrays of objects (their order carries no meaning in LSP answers); keep arrays of
/// numbers (semantic tokens) as they are.
pub fn normalize(v: &Value) -> Value {
    match v {
        Value::Array(a) => {
            let mut items: Vec<Value> = a.iter().map(normalize).collect();
            if items.iter().all(|x| x.is_object()) {
                items.sort_by_key(|x| x.to_string());
            }
            Value::Array(items)
        }
        Value::Object(o) => Value::Object(o.iter().map(|(k, v)| (k.clone(), normalize(v))).collect()),
        other => other.clone(),
    }
}

fn reference_session(s: &Session, ops: Vec<PlannedOp>, hash_seed: u64) -> History {
    let r = Session {
        property: s.property.clone(),
        seed: s.seed,
        run: s.run,
        hash_seed,
        concurrency: 64,
        gran: Granularity::Coarse,
        policy: "sequential".into(),
        sequential: true,
        root: s.root.clone(),
        tree: s.tree.clone(),
        ops,
        crashes: Vec::new(),
        midload: Vec::new(),
        midload_at: Vec::new(),
        decisions: None,
        hold: None,
        meta: json!({"reference": true}),
    };
    run_session(&r, false)
}

fn last_diagnostics(h: &History) -> BTreeMap<String, Value> {
    let mut m = BTreeMap::new();
    for n in h.notifications("textDocument/publishDiagnostics") {
        if let Some(uri) = n["params"]["uri"].as_str() {
            m.insert(uri.to_string(), normalize(&n["params"]["diagnostics"]));
        }
    }
    m
}

pub fn check(s: &Session, h: &History, stats: &mut Stats) -> Option<Violation> {
    stats.nontrivial = h.contended > 0 && h.probes.get("write_pending_rounds").copied().unwrap_or(0) > 0;
    for (k, v) in &h.probes {
        stats.window_probes.insert(k.clone(), *v);
    }
    // (d) liveness: alive, no deadlock, final quiescence reached
    if let Some(v) = lspcheck::liveness_violation(s, h) {
        return Some(v);
    }
    if !h.completed {
        return None;
    }
    // which requests were delivered, in stream order, with the documents as of then
    let mut models: BTreeMap<String, DocModel> = BTreeMap::new();
    let mut order: Vec<String> = Vec::new();
    let mut at_version: Vec<(usize, Vec<(String, String)>)> = Vec::new();
    // disk writes and watched-file notifications seen so far (they change what the server knows
    // about files the client has not opened); part of a request's "version"
    let mut disk_ops: Vec<usize> = Vec::new();
    let mut open_now: BTreeMap<String, bool> = BTreeMap::new();
    for (i, p) in s.ops.iter().enumerate() {
        match &p.op {
            Op::Open { uri, text } => {
                if crate::lsp::has_lone_cr(text) {
                    return None; // not a history of the property (LF / CRLF only)
                }
                if !models.contains_key(uri) {
                    order.push(uri.clone());
                }
                models.insert(uri.clone(), DocModel { text: text.clone() });
                open_now.insert(uri.clone(), true);
            }
            Op::Close { uri } => {
                open_now.insert(uri.clone(), false);
            }
            Op::Change { uri, edits } => {
                if let Some(m) = models.get_mut(uri) {
                    for e in edits {
                        if m.apply(e).is_err() || crate::lsp::has_lone_cr(&m.text) {
                            return None; // not a C16 history
                        }
                    }
                }
            }
            Op::Disk(_) | Op::Watched { .. } => disk_ops.push(i),
            Op::Request { .. } => {
                let mut v: Vec<(String, String)> = order.iter().map(|u| (u.clone(), models[u].text.clone())).collect();
                v.push(("#disk_ops".to_string(), disk_ops.len().to_string()));
                at_version.push((i, v));
            }
            _ => {}
        }
    }
    // (a) exactly one response per request
    let resp = h.responses();
    if let Some(mut v) = lspcheck::exactly_once(s, h) {
        // is it the concurrency limit? (more requests in flight than permits)
        v.kinds.push(format!("concurrency_limit.{}", if s.concurrency <= 4 { "small" } else { "large" }));
        return Some(v);
    }
    // (c1) the server's text equals the client's final text
    for e in &h.events {
        if let Ev::Probe { uri, text, .. } = e {
            let want = models.get(uri).map(|m| m.normalized());
            if text.as_deref() != want.as_deref() {
                return Some(Violation {
                    oracle: "converges.text".into(),
                    kinds: vec!["final_text".into()],
                    detail: format!("after the client went quiet the server holds {:?} for {uri}, the client {:?}", text, want),
                });
            }
        }
    }
    // (c1') ... and what it ANALYSES is that text too (the document store and the analysis database
    // are two copies): the syntax tree asked for after quiescence is that of the client's text
    for p in &s.ops {
        let Op::Request { id, method, uri, .. } = &p.op else { continue };
        if *id < 9000 || method != "glas/syntaxTree" {
            continue;
        }
        let (Some(m), Some(r)) = (models.get(uri), resp.get(id).and_then(|v| v.first())) else { continue };
        let Some(tree) = r.get("result").and_then(|t| t.as_str()) else { continue };
        if let Some(diff) = crate::c13::tree_differs_from(tree, &m.normalized()) {
            return Some(Violation {
                oracle: "converges.analysed_text".into(),
                kinds: vec!["final_syntax_tree".into()],
                detail: format!("after the client went quiet the syntax tree of {uri} is not that of the client's text {:?}: {diff}", m.text),
            });
        }
    }
    // (d) a probe request after quiescence is answered with a result
    let probe_sent = h.events.iter().any(|e| matches!(e, Ev::Sent { op, .. } if matches!(&s.ops[*op].op, Op::Request { id: 9000, .. })));
    match resp.get(&9000).and_then(|v| v.first()) {
        _ if !probe_sent => {}
        // the fault plan may pick the probe's own task for an injected panic
        Some(r) if r["error"]["message"].as_str().map_or(false, |m| m.contains(crate::core::CRASH_MSG)) => {}
        Some(r) if r.get("result").is_some() => {}
        other => {
            return Some(Violation {
                oracle: "liveness.answers_after_quiescence".into(),
                kinds: vec!["probe_request".into()],
                detail: format!("glas/syntaxTree sent after quiescence was answered with {:?}", other.map(|v| v.to_string().chars().take(200).collect::<String>())),
            });
        }
    }
    // (b) results are those of the version the request was issued against
    let mut groups: BTreeMap<Vec<(String, String)>, Vec<usize>> = BTreeMap::new();
    let mut errored: Vec<usize> = Vec::new();
    for (i, v) in &at_version {
        let Op::Request { id, .. } = &s.ops[*i].op else { continue };
        stats.requests += 1;
        let Some(r) = resp.get(id).and_then(|v| v.first()) else { continue };
        if let Some(e) = r.get("error") {
            stats.error_responses += 1;
            if e["code"].as_i64() == Some(-32800) {
                stats.cancelled_responses += 1;
                // A cancellation needs a cause: something that changes the analysis must have been
                // handed to the server between this request and its answer (or a task of the run
                // panicked: whoever waits for a query of a panicking task is cancelled as well).
                let sent_step = h.events.iter().find_map(|e| match e { Ev::Sent { op, step } if op == i => Some(*step), _ => None });
                let recv_step = h.events.iter().find_map(|e| match e {
                    Ev::Recv { msg, step } if msg.get("method").is_none() && msg.get("id").and_then(|x| x.as_i64()) == Some(*id) => Some(*step),
                    _ => None,
                });
                let cause = h.events.iter().any(|e| match e {
                    Ev::Sent { op, step } => {
                        matches!(s.ops[*op].op, Op::Change { .. } | Op::Open { .. } | Op::Watched { .. })
                            && sent_step.map_or(true, |a| *step >= a)
                            && recv_step.map_or(true, |b| *step <= b)
                    }
                    _ => false,
                });
                let any_panic = h.faults.get("query_crash").copied().unwrap_or(0) > 0
                    || resp.values().flatten().any(|x| x["error"]["code"].as_i64() == Some(-32603));
                if !cause && !any_panic {
                    // Counted, not reported: the statement allows "a cancellation/error" for any
                    // request; demanding a visible cause would be more than it says.
                    *stats.window_probes.entry("cancelled_without_visible_cause".into()).or_insert(0) += 1;
                }
            } else {
                errored.push(*i);
            }
            continue;
        }
        groups.entry(v.clone()).or_default().push(*i);
    }
    // An error other than a cancellation must be what a sequential server says as well (document
    // not loaded, rename refused, a query that panics on this input, ...), unless a panic was
    // injected into a task of this run.
    if h.faults.get("query_crash").copied().unwrap_or(0) == 0 {
        for i in &errored {
            let Op::Request { id, method, .. } = &s.ops[*i].op else { continue };
            let version = &at_version.iter().find(|(k, _)| k == i).unwrap().1;
            let mut ops = crate::lsp::preamble_of(s);
            for (u, t) in version {
                if u == "#disk_ops" {
                    for k in disk_ops.iter().take(t.parse::<usize>().unwrap_or(0)) {
                        ops.push(PlannedOp::new(s.ops[*k].op.clone()));
                    }
                } else {
                    ops.push(PlannedOp::new(Op::Open { uri: u.clone(), text: t.clone() }));
                }
            }
            ops.push(PlannedOp::new(Op::Barrier));
            ops.push(PlannedOp::new(s.ops[*i].op.clone()));
            ops.push(PlannedOp::new(Op::Barrier));
            let rh = reference_session(s, ops, s.hash_seed);
            stats.reference_sessions += 1;
            let want = rh.responses().get(id).and_then(|v| v.first()).map(|x| (*x).clone());
            stats.errors_compared += 1;
            if want.as_ref().map_or(false, |w| w.get("result").is_some()) {
                // a cycle between two modules makes whoever comes second fail; which task that is
                // depends on the schedule (C10's domain: the panic is there for every schedule)
                let got = &resp[id][0];
                if got["error"]["message"].as_str().map_or(false, |m| m.contains("cycle detected")) {
                    stats.oracle_unstable += 1;
                    continue;
                }
                // Counted, not reported: "a cancellation/error" is a legal answer to any request
                // (a server may, e.g., answer ContentModified where this one answers
                // RequestCancelled); only a *result* is tied to a version by the statement.
                let _ = method;
                *stats.window_probes.entry("error_where_sequential_server_answers".into()).or_insert(0) += 1;
            }
        }
    }
    for (version, reqs) in &groups {
        let build = |hash_seed: u64| -> (History, Vec<i64>) {
            let mut ops = crate::lsp::preamble_of(s);
            for (u, t) in version {
                if u == "#disk_ops" {
                    for k in disk_ops.iter().take(t.parse::<usize>().unwrap_or(0)) {
                        ops.push(PlannedOp::new(s.ops[*k].op.clone()));
                    }
                } else {
                    ops.push(PlannedOp::new(Op::Open { uri: u.clone(), text: t.clone() }));
                }
            }
            ops.push(PlannedOp::new(Op::Barrier));
            let mut ids = Vec::new();
            for i in reqs {
                ops.push(PlannedOp::new(s.ops[*i].op.clone()));
                ops.push(PlannedOp::new(Op::Barrier));
                if let Op::Request { id, .. } = &s.ops[*i].op {
                    ids.push(*id);
                }
            }
            (reference_session(s, ops, hash_seed), ids)
        };
        let (rh, ids) = build(s.hash_seed);
        stats.reference_sessions += 1;
        let rresp = rh.responses();
        let mut alt: Option<Vec<History>> = None;
        for (k, id) in ids.iter().enumerate() {
            let got = normalize(&resp[id][0]["result"]);
            let want = rresp.get(id).and_then(|v| v.first());
            stats.results_compared += 1;
            let same = |w: Option<&&Value>| matches!(w, Some(w) if w.get("result").map(normalize).as_ref() == Some(&got));
            if same(want) {
                continue;
            }
            // unstable oracle? ask two more references under other hash keys
            if alt.is_none() {
                alt = Some(vec![build(mix(s.hash_seed, 0xA1)).0, build(mix(s.hash_seed, 0xA2)).0]);
                stats.reference_sessions += 2;
            }
            let agree_elsewhere = alt.as_ref().unwrap().iter().any(|a| same(a.responses().get(id).and_then(|v| v.first())));
            let refs_disagree = alt.as_ref().unwrap().iter().any(|a| {
                a.responses().get(id).and_then(|v| v.first()).map(|x| normalize(x)) != want.map(|x| normalize(x))
            });
            if agree_elsewhere || refs_disagree {
                stats.oracle_unstable += 1;
                continue;
            }
            // The disk is not part of the message stream: a file the client wrote AFTER sending this
            // request is on disk whenever the server happens to look (the loader walks the package
            // when the main loop gets to an earlier didOpen). Accept the answer of a reference
            // that has seen more of the disk writes the client had performed by the time the
            // answer arrived.
            let n_disk_now: usize = version.iter().find(|(u, _)| u == "#disk_ops").and_then(|(_, t)| t.parse().ok()).unwrap_or(0);
            let recv_step = h.events.iter().find_map(|e| match e {
                Ev::Recv { msg, step } if msg.get("method").is_none() && msg.get("id").and_then(|x| x.as_i64()) == Some(*id) => Some(*step),
                _ => None,
            });
            let mut later_disk_explains = false;
            for more in (n_disk_now + 1)..=disk_ops.len() {
                let op_idx = disk_ops[more - 1];
                let performed_at = h.events.iter().find_map(|e| match e { Ev::Sent { op, step } if *op == op_idx => Some(*step), _ => None });
                if performed_at.is_none() || recv_step.map_or(false, |r| performed_at.unwrap() > r) {
                    break;
                }
                let mut ops = crate::lsp::preamble_of(s);
                // disk first: the loader may have seen it already at the first open
                for k2 in disk_ops.iter().take(more) {
                    if matches!(s.ops[*k2].op, Op::Disk(_)) {
                        ops.push(PlannedOp::new(s.ops[*k2].op.clone()));
                    }
                }
                for (u, t) in version {
                    if u != "#disk_ops" {
                        ops.push(PlannedOp::new(Op::Open { uri: u.clone(), text: t.clone() }));
                    }
                }
                ops.push(PlannedOp::new(Op::Barrier));
                ops.push(PlannedOp::new(s.ops[reqs[k]].op.clone()));
                ops.push(PlannedOp::new(Op::Barrier));
                let ah = reference_session(s, ops, s.hash_seed);
                stats.reference_sessions += 1;
                if same(ah.responses().get(id).and_then(|v| v.first())) {
                    later_disk_explains = true;
                    break;
                }
            }
            if later_disk_explains {
                stats.disk_seen_early += 1;
                continue;
            }
            let Op::Request { method, .. } = &s.ops[reqs[k]].op else { continue };
            let mut kinds = vec![format!("req.{method}")];
            // does the answer belong to another version of the documents?
            let mut other_version = false;
            for (v2, _) in groups.iter().filter(|(v2, _)| *v2 != version) {
                let mut ops = crate::lsp::preamble_of(s);
                for (u, t) in v2 {
                    if u == "#disk_ops" {
                        for k in disk_ops.iter().take(t.parse::<usize>().unwrap_or(0)) {
                            ops.push(PlannedOp::new(s.ops[*k].op.clone()));
                        }
                    } else {
                        ops.push(PlannedOp::new(Op::Open { uri: u.clone(), text: t.clone() }));
                    }
                }
                ops.push(PlannedOp::new(Op::Barrier));
                ops.push(PlannedOp::new(s.ops[reqs[k]].op.clone()));
                ops.push(PlannedOp::new(Op::Barrier));
                let oh = reference_session(s, ops, s.hash_seed);
                stats.reference_sessions += 1;
                if same(oh.responses().get(id).and_then(|v| v.first())) {
                    other_version = true;
                    break;
                }
            }
            kinds.push(if other_version { "answer_of_other_version".into() } else { "answer_of_no_version".into() });
            if want.map_or(false, |w| w.get("error").is_some()) {
                kinds.push("reference_errs".into());
            }
            return Some(Violation {
                oracle: "result_matches_version".into(),
                kinds,
                detail: format!(
                    "request id {id} ({method}) was answered with result {} but a sequential server holding the documents as of the request answers {}",
                    got.to_string().chars().take(300).collect::<String>(),
                    want.map_or("nothing".to_string(), |w| w.to_string().chars().take(300).collect::<String>())
                ),
            });
        }
    }
    // (c3) ... and they are those of the final TEXT: a fresh server that is simply given the final
    // text of every document publishes the same list (this does not go through the history, so a
    // defect that the sequential reference of (c2) shares is still seen)
    {
        // a plain client: what is published for a text does not depend on what the client announced
        // or on how it answered the server's own requests
        let root_uri = format!("file://{}", s.root);
        let mut ops = preamble(Some(&root_uri));
        for k in &disk_ops {
            if matches!(s.ops[*k].op, Op::Disk(_)) {
                ops.push(PlannedOp::new(s.ops[*k].op.clone()));
            }
        }
        for u in &order {
            if open_now.get(u) == Some(&true) {
                ops.push(PlannedOp::new(Op::Open { uri: u.clone(), text: models[u].text.clone() }));
                ops.push(PlannedOp::new(Op::Barrier));
            }
        }
        let fh = reference_session(s, ops, s.hash_seed);
        stats.reference_sessions += 1;
        let want = last_diagnostics(&fh);
        let got = last_diagnostics(h);
        let crash_fired = h.faults.get("query_crash").copied().unwrap_or(0) > 0;
        for (uri, is_open) in &open_now {
            if !*is_open || got.get(uri) == want.get(uri) {
                continue;
            }
            if crash_fired && got.get(uri).map_or(false, |v| v.as_array().map_or(false, |a| a.is_empty())) {
                continue;
            }
            let g = got.get(uri);
            let kind = match g {
                None => "never_published",
                Some(v) if v.as_array().map_or(false, |a| a.is_empty()) => "last_is_empty",
                _ => "last_differs",
            };
            return Some(Violation {
                oracle: "converges.diagnostics_of_final_text".into(),
                kinds: vec![kind.into()],
                detail: format!(
                    "last diagnostics published for {uri}: {} ; a fresh server given the final text publishes {}",
                    g.map_or("none".to_string(), |v| v.to_string().chars().take(300).collect::<String>()),
                    want.get(uri).map_or("none".to_string(), |v| v.to_string().chars().take(300).collect::<String>())
                ),
            });
        }
    }
    // (c2) the last diagnostics of each open document are those of the same history fed sequentially
    let rh = reference_session(s, s.ops.clone(), s.hash_seed);
    stats.reference_sessions += 1;
    let want = last_diagnostics(&rh);
    let got = last_diagnostics(h);
    for (uri, is_open) in &open_now {
        if !*is_open {
            continue;
        }
        stats.diagnostics_compared += 1;
        if got.get(uri) != want.get(uri) {
            // A panic injected into a diagnostics task makes that task publish an empty list
            // (the documented behaviour for failing computations); nothing recomputes it.
            let crash_fired = h.faults.get("query_crash").copied().unwrap_or(0) > 0;
            if crash_fired && got.get(uri).map_or(false, |v| v.as_array().map_or(false, |a| a.is_empty())) {
                stats.oracle_unstable += 1;
                continue;
            }
            // unstable reference?
            let rh2 = reference_session(s, s.ops.clone(), mix(s.hash_seed, 0xB1));
            stats.reference_sessions += 1;
            if last_diagnostics(&rh2).get(uri) != want.get(uri) {
                stats.oracle_unstable += 1;
                continue;
            }
            let g = got.get(uri);
            let kind = match g {
                None => "never_published",
                Some(v) if v.as_array().map_or(false, |a| a.is_empty()) => "last_is_empty",
                _ => "last_is_stale",
            };
            return Some(Violation {
                oracle: "converges.diagnostics".into(),
                kinds: vec![kind.into()],
                detail: format!(
                    "last diagnostics published for {uri}: {} ; the same history fed by a sequential client ends with {}",
                    g.map_or("none".to_string(), |v| v.to_string().chars().take(300).collect::<String>()),
                    want.get(uri).map_or("none".to_string(), |v| v.to_string().chars().take(300).collect::<String>())
                ),
            });
        }
    }
    None
}
