fn main() {
    // std looks `getrandom` up as a weak symbol "to allow interposition"; export ours so that the
    // per-thread `RandomState` keys of every HashMap in the process come from the run seed.
    println!("cargo:rustc-link-arg-bins=-Wl,--export-dynamic-symbol=getrandom");
    // `statx` is looked up the same way (std's `weak!` macro); see src/sysseam.rs
    println!("cargo:rustc-link-arg-bins=-Wl,--export-dynamic-symbol=statx");
    println!("cargo:rerun-if-changed=build.rs");
}
