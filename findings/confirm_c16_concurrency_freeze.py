#!/usr/bin/env python3
"""Shows the known finding of C16 against the real binary (not a check; a triage aid).

usage: confirm_c16_concurrency_freeze.py <path to glas binary> [n_requests]

Opens one large document and sends n requests in a single write, so that more requests are in
flight than the request concurrency limit (= the machine's core count). On the pinned tree the
main loop then stops reading input for good: the batch is never completely answered and a later
request gets no answer either.
"""
import json, os, select, subprocess, sys, time

def frame(m):
    b = json.dumps(m).encode()
    return b"Content-Length: %d\r\n\r\n" % len(b) + b

def main():
    binary = sys.argv[1]
    n = int(sys.argv[2]) if len(sys.argv) > 2 else 4 * (os.cpu_count() or 4)
    p = subprocess.Popen([binary, "--stdio"], stdin=subprocess.PIPE, stdout=subprocess.PIPE, stderr=subprocess.DEVNULL)
    buf = b""
    answered = set()
    def pump(timeout):
        nonlocal buf
        end = time.time() + timeout
        while time.time() < end:
            r, _, _ = select.select([p.stdout], [], [], 0.2)
            if r:
                chunk = os.read(p.stdout.fileno(), 1 << 16)
                if not chunk:
                    return
                buf += chunk
                while True:
                    i = buf.find(b"\r\n\r\n")
                    if i < 0:
                        break
                    ln = int(buf[:i].split(b"Content-Length: ")[1].split(b"\r\n")[0])
                    if len(buf) < i + 4 + ln:
                        break
                    msg = json.loads(buf[i + 4:i + 4 + ln]); buf = buf[i + 4 + ln:]
                    if "id" in msg and "method" not in msg:
                        answered.add(msg["id"])
    def send(m):
        p.stdin.write(frame(m)); p.stdin.flush()
    send({"jsonrpc": "2.0", "id": 0, "method": "initialize", "params": {"processId": None, "rootUri": None, "capabilities": {}}})
    pump(3)
    send({"jsonrpc": "2.0", "method": "initialized", "params": {}})
    text = "".join(f"pub fn f{i}(x: Int) {{\n  let y = f{max(i-1,0)}(x)\n  case y {{\n    1 -> 2\n    z -> z + {i}\n  }}\n}}\n\n" for i in range(1500))
    uri = "file:///nonexistent-glas-confirm/big.gleam"
    send({"jsonrpc": "2.0", "method": "textDocument/didOpen", "params": {"textDocument": {"uri": uri, "languageId": "gleam", "version": 1, "text": text}}})
    pump(5)
    batch = b"".join(frame({"jsonrpc": "2.0", "id": 100 + i, "method": "textDocument/semanticTokens/full", "params": {"textDocument": {"uri": uri}}}) for i in range(n))
    p.stdin.write(batch); p.stdin.flush()
    pump(20)
    got = len([i for i in answered if i >= 100])
    send({"jsonrpc": "2.0", "id": 9000, "method": "glas/syntaxTree", "params": {"textDocument": {"uri": uri}}})
    pump(10)
    alive = p.poll() is None
    print(f"requests sent in one write: {n}; answered: {got}; later request answered: {9000 in answered}; process alive: {alive}")
    p.kill()
    if got == n and 9000 in answered:
        print("RESULT: no freeze observed")
        sys.exit(0)
    print("RESULT: FROZEN - the main loop stopped reading input (known finding C16 / async-lsp concurrency limit)")
    sys.exit(1)

if __name__ == "__main__":
    main()
