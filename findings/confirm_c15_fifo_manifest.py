#!/usr/bin/env python3
"""Shows the C15 defect "a dependency's gleam.toml that is a FIFO puts the main loop to sleep"
against the real binary (a triage aid, not a check).

usage: confirm_c15_fifo_manifest.py <path to glas binary>

Builds a small project whose dependency build/packages/dep has a named pipe in place of its
gleam.toml (nobody writes to it), opens src/a.gleam and asks for its syntax tree. On the tree
before the repair the package loader reads the manifest with a blocking open(2) on the main loop:
the request is never answered although the process stays alive. Exit 1 = no answer, 0 = answered.
"""
import json, os, select, shutil, subprocess, sys, tempfile, time

def frame(m):
    b = json.dumps(m).encode()
    return b"Content-Length: %d\r\n\r\n" % len(b) + b

def main():
    binary = sys.argv[1]
    root = tempfile.mkdtemp(prefix="glas-fifo-")
    os.makedirs(f"{root}/src"); os.makedirs(f"{root}/build/packages/dep/src")
    open(f"{root}/gleam.toml", "w").write('name = "proj"\n\n[dependencies]\ndep = "~> 1.0"\n')
    open(f"{root}/src/a.gleam", "w").write("pub fn main() {\n  1\n}\n")
    open(f"{root}/build/packages/dep/src/d.gleam", "w").write("pub fn d() { 1 }\n")
    os.mkfifo(f"{root}/build/packages/dep/gleam.toml")
    p = subprocess.Popen([binary, "--stdio"], stdin=subprocess.PIPE, stdout=subprocess.PIPE, stderr=subprocess.DEVNULL)
    buf = b""; answered = set()
    def pump(timeout, until=None):
        nonlocal buf
        end = time.time() + timeout
        while time.time() < end and (until is None or until not in answered):
            r, _, _ = select.select([p.stdout], [], [], 0.2)
            if r:
                chunk = os.read(p.stdout.fileno(), 1 << 16)
                if not chunk:
                    return
                buf += chunk
                while True:
                    i = buf.find(b"\r\n\r\n")
                    if i < 0:
                        break
                    ln = int(buf[:i].split(b"Content-Length: ")[1].split(b"\r\n")[0])
                    if len(buf) < i + 4 + ln:
                        break
                    msg = json.loads(buf[i + 4:i + 4 + ln]); buf = buf[i + 4 + ln:]
                    if "id" in msg and "method" not in msg:
                        answered.add(msg["id"])
    def send(m):
        p.stdin.write(frame(m)); p.stdin.flush()
    send({"jsonrpc": "2.0", "id": 0, "method": "initialize", "params": {"processId": None, "rootUri": f"file://{root}", "capabilities": {}}})
    pump(5, 0)
    send({"jsonrpc": "2.0", "method": "initialized", "params": {}})
    uri = f"file://{root}/src/a.gleam"
    send({"jsonrpc": "2.0", "method": "textDocument/didOpen", "params": {"textDocument": {"uri": uri, "languageId": "gleam", "version": 1, "text": "pub fn main() {\n  1\n}\n"}}})
    send({"jsonrpc": "2.0", "id": 1, "method": "glas/syntaxTree", "params": {"textDocument": {"uri": uri}}})
    pump(10, 1)
    alive = p.poll() is None
    print(f"syntax tree request answered: {1 in answered}; process alive: {alive}")
    p.kill()
    shutil.rmtree(root, ignore_errors=True)
    sys.exit(0 if 1 in answered else 1)

main()
